"""C15 - an interrupted Markov level resumes at the very next guess (DESIGN section 4, C15)."""
import ast

from ..core import (U, walk_local, calls_in, call_name, const, NOCONST, params, stores_in, single_def, expand,
                    walk_stmts, arg_for, kwarg, path_conditions, enclosing_stmt_chain, dotted)
from ..cfg import CFG
from .common import PG, PGF, CS, CSF, PQ
from . import c08, c12

MC = 'lib_guesser/omen/markov_cracker.py::MarkovCracker.'
MCF = 'lib_guesser/omen/markov_cracker.py'


def r1_one_shot_key(ctx, rule):
    qual = CS + 'run'
    fn = ctx.fn(qual)
    mod = ctx.repo.modules[CSF]
    cfg = CFG(fn)
    # presence-triggered actions: `if cfg.has_option(S, O): ... action`
    n = 0
    for node in walk_local(fn):
        if isinstance(node, ast.If) and isinstance(node.test, ast.Call) and isinstance(node.test.func, ast.Attribute) \
                and node.test.func.attr == 'has_option':
            key = tuple(const(a) for a in node.test.args)
            recv = U(node.test.func.value)
            actions = [c for c in calls_in(node) if call_name(c) == 'self.pcfg.restore_omen']
            if not actions:
                continue
            n += 1
            act_n = cfg.node_of(c08._stmt_of(mod, actions[0]))
            removes = []
            for c in calls_in(fn):
                if isinstance(c.func, ast.Attribute) and c.func.attr == 'remove_option' and U(c.func.value) == recv \
                        and tuple(const(a) for a in c.args) == key:
                    removes.append(cfg.node_of(c08._stmt_of(mod, c)))
            loops = [nid for nid, nd in cfg.nodes.items() if nd.kind == 'test' and isinstance(nd.stmt, ast.While)]
            facts = {'key': key, 'removes': len(removes)}
            if not loops:
                ctx.unk(rule, qual, 'generation loop not found')
                return
            ctx.stats['paths'] += 1
            if removes and all(cfg.every_path_passes(act_n, lp, set(removes)) for lp in loops):
                ctx.ok(rule, qual, 'option %s.%s is removed on every path from its consumption to the generation loop' % key, facts)
            else:
                w = cfg.witness_path(act_n, loops[0], avoid=removes)
                facts['witness'] = cfg.describe(w) if w else None
                ctx.bad(rule, qual, 'one-shot option %s.%s is not removed after it has triggered the OMEN restore' % key,
                        'the option stays in the save config; after a later quit outside OMEN the next --load replays the '
                        'old OMEN remainder again', facts, node)
    ctx.floor(rule, CSF, n, 1, 'presence-triggered restore actions')


def r2_no_generated_unemitted(ctx, rule):
    qual = PG + 'omen_generate_guesses'
    fn = ctx.fn(qual)
    loops = [n for n in walk_local(fn) if isinstance(n, ast.While)]
    if len(loops) != 1:
        ctx.unk(rule, qual, 'expected one generation loop')
        return
    lp = loops[0]
    body = lp.body

    def idx(pred):
        return [i for i, s in enumerate(body) if pred(s)]
    emit = idx(lambda s: isinstance(s, ast.Expr) and isinstance(s.value, ast.Call) and call_name(s.value) == 'self.print_guess')
    quit_ = idx(lambda s: isinstance(s, ast.If) and U(s.test) == 'self.should_exit')
    nxt = idx(lambda s: any(isinstance(c.func, ast.Attribute) and c.func.attr == 'next_guess' for c in calls_in(s))
              and not (isinstance(s, ast.If) and U(s.test) == 'self.should_exit'))
    facts = {'order': [U(s).split('\n')[0][:50] for s in body]}
    if not emit or not quit_ or not nxt:
        ctx.unk(rule, qual, 'cannot find emission / quit test / next_guess in the loop body', facts)
        return
    ok = True
    if not (emit[0] < quit_[0] < nxt[-1]) or any(emit[0] < k < quit_[0] for k in nxt):
        ok = False
        ctx.bad(rule, qual, 'order of emission, quit test and next_guess(): %s' % facts['order'],
                'between writing a guess and saving the generator state no further guess may be generated: a string '
                'generated but not emitted is skipped by the resumed run', facts, lp)
    q = body[quit_[0]]
    inner = [call_name(c) or (c.func.attr if isinstance(c.func, ast.Attribute) else '') for s in q.body for c in calls_in(s)]
    if any(x == 'self.print_guess' for x in inner) or any(str(x).endswith('next_guess') for x in inner):
        ok = False
        ctx.bad(rule, qual, 'quit branch emits or generates: %s' % inner, 'nothing may be generated or emitted after the '
                'state was saved', facts, q)
    # the flag that tells the session to save the OMEN marker is set on the quit branch
    sets_exit = any(isinstance(s, ast.Assign) and U(s.targets[0]) == 'self.omen_exit' and const(s.value) is True for s in q.body)
    if not sets_exit:
        ok = False
        ctx.bad(rule, qual, 'quit branch does not set omen_exit', 'the session would not record that a Markov level is in '
                'progress', facts, q)
    # the save file name agrees with the one restore_omen loads
    save_args = [U(c.args[0]) for s in q.body for c in calls_in(s) if isinstance(c.func, ast.Attribute) and c.func.attr == 'save_session' and c.args]
    rfn = ctx.fn(PG + 'restore_omen')
    load_args = [U(c.args[0]) for c in calls_in(rfn) if isinstance(c.func, ast.Attribute) and c.func.attr == 'load_session' and c.args]
    facts['save_file'] = save_args
    facts['load_file'] = load_args
    if not save_args or not load_args or save_args[0] != load_args[0]:
        ok = False
        ctx.bad(rule, qual, 'OMEN state saved to %s but restored from %s' % (save_args, load_args),
                'save and restore must name the same file', facts, q)
    if ok:
        ctx.ok(rule, qual, 'emit -> quit test (save, return) -> next_guess(); nothing generated between emission and save', facts)
    # restore_omen: load before generate, generator = the loaded cracker
    calls = [(call_name(c) or ('.' + c.func.attr if isinstance(c.func, ast.Attribute) else ''), c) for c in calls_in(rfn)]
    names = [nme for nme, c in calls]
    facts2 = {'calls': names}
    try:
        i_load = next(i for i, (nme, c) in enumerate(calls) if nme.endswith('.load_session'))
        i_gen = next(i for i, (nme, c) in enumerate(calls) if nme == 'self.omen_generate_guesses')
        ok2 = True
    except StopIteration:
        ok2 = False
    if ok2:
        # source order of statements
        lines = {nme: c.lineno for nme, c in calls}
        gen_call = calls[i_gen][1]
        load_call = calls[i_load][1]
        recv = U(load_call.func.value)
        ok2 = load_call.lineno < gen_call.lineno and gen_call.args and U(gen_call.args[0]) == recv
    if ok2:
        ctx.ok(rule, PG + 'restore_omen', 'restore loads the pickled state into the cracker it then generates from', facts2)
    else:
        ctx.bad(rule, PG + 'restore_omen', 'restore_omen call order %s' % names, 'the generator must be restored from the '
                'saved state before guesses are generated from it', facts2, rfn)


def r3_pickle_layout(ctx, rule):
    sq, lq = MC + 'save_session', MC + 'load_session'
    sfn, lfn = ctx.fn(sq), ctx.fn(lq)
    dumps = [U(c.args[0]) for c in sorted(calls_in(sfn), key=lambda c: (c.lineno, c.col_offset)) if call_name(c) == 'pickle.dump' and c.args]
    loads = []
    for st in walk_stmts(lfn.body):
        if isinstance(st, ast.Assign) and isinstance(st.value, ast.Call) and call_name(st.value) == 'pickle.load':
            loads.append(U(st.targets[0]))
    # locals later stored into attributes
    later = {}
    for st in walk_stmts(lfn.body):
        if isinstance(st, ast.Assign) and isinstance(st.value, ast.Name) and isinstance(st.targets[0], ast.Attribute):
            later[st.value.id] = U(st.targets[0])
    resolved = [later.get(x, x) for x in loads]
    facts = {'dumped': dumps, 'loaded_into': resolved}
    n_load_calls = sum(1 for c in calls_in(lfn) if call_name(c) == 'pickle.load')
    if n_load_calls and len(loads) != n_load_calls:
        # the loads are there but not as `<place> = pickle.load(file)` statements (a comprehension, unpacking of a list of loads ...)
        ctx.unk(rule, lq, 'load_session reads the pickled fields in a form the rule does not follow (%d pickle.load calls, %d plain '
                'assignments)' % (n_load_calls, len(loads)), facts)
        return
    if ctx.floor(rule, MCF, len(dumps), 3, 'pickle.dump calls'):
        if dumps == resolved:
            ctx.ok(rule, lq, 'load_session restores the %d pickled fields in the order save_session wrote them' % len(dumps), facts)
        else:
            ctx.bad(rule, lq, 'pickle layout differs: saved %s, loaded into %s' % (dumps, resolved),
                    'fields are restored into the wrong attributes (or some are missing): the resumed generator continues '
                    'from a different position', facts, lfn)
    # every attribute derived from the constructor's target level must be re-established by load_session
    ifn = ctx.fn(MC + '__init__')
    ips = params(ifn)
    derived = {}
    for st in walk_stmts(ifn.body):
        if isinstance(st, ast.Assign) and len(st.targets) == 1 and isinstance(st.targets[0], ast.Attribute) \
                and U(st.targets[0].value) == 'self':
            names = {n.id for n in ast.walk(st.value) if isinstance(n, ast.Name)}
            attrs = {U(n) for n in ast.walk(st.value) if isinstance(n, ast.Attribute)}
            if 'target_level' in names or any(a in derived for a in attrs):
                derived['self.' + st.targets[0].attr] = U(st.value)
    restored = set(resolved) | {U(st.targets[0]) for st in walk_stmts(lfn.body) if isinstance(st, ast.Assign)
                                and isinstance(st.targets[0], ast.Attribute)}
    missing = sorted(a for a in derived if a not in restored)
    facts2 = {'derived_from_target_level': derived, 'restored': sorted(restored)}
    if missing:
        ctx.bad(rule, lq, 'state derived from the target level is not restored: %s' % missing,
                'restore_omen builds the cracker with a placeholder level and load_session overwrites the level; anything '
                'computed from the level in __init__ stays at the placeholder value, so the resumed generator stops early '
                'or runs on', facts2, lfn)
    else:
        ctx.ok(rule, lq, 'every attribute __init__ derives from target_level is re-established by load_session', facts2)
    # mutable state of the guess structure: every attribute stored outside GuessStructure.__init__ must be restored
    gmut = {}
    for qq, f in ctx.repo.all_funcs():
        if qq.startswith('lib_guesser/omen/guess_structure.py::GuessStructure.') and not qq.endswith('.__init__'):
            for nn in walk_local(f):
                if isinstance(nn, ast.Attribute) and isinstance(nn.ctx, ast.Store) and U(nn.value) == 'self':
                    gmut.setdefault(nn.attr, qq.rpartition('.')[2])
    grestored = {a.rpartition('.')[2] for a in restored if a.startswith('self.cur_guess.')}
    gmissing = sorted(a for a in gmut if a not in grestored)
    facts3 = {'guess_structure_mutable_state': gmut, 'restored_on_cur_guess': sorted(grestored)}
    if gmissing:
        ctx.bad(rule, lq, 'mutable state of the guess structure is not restored: %s' % gmissing,
                'load_session rebuilds the GuessStructure with its constructor and then copies the saved fields into it; any '
                'other attribute the structure updates while generating (%s) keeps its constructor value, so the first guesses '
                'after a resume are built from stale state' % ', '.join('%s in %s' % (a, gmut[a]) for a in gmissing), facts3, lfn)
    else:
        ctx.ok(rule, lq, 'every attribute GuessStructure updates while generating is restored by load_session', facts3)
    # the GuessStructure built in load_session uses the restored cursors
    gs = [c for c in calls_in(lfn) if call_name(c) == 'GuessStructure']
    load_lines = [st.lineno for st in walk_stmts(lfn.body) if isinstance(st, ast.Assign) and isinstance(st.value, ast.Call)
                  and call_name(st.value) == 'pickle.load' and U(st.targets[0]).startswith('self.')]
    if gs and load_lines and gs[0].lineno > max(load_lines):
        ctx.ok(rule, lq, 'the guess structure is rebuilt after the cursors were restored')
    else:
        ctx.bad(rule, lq, 'GuessStructure built before the cursors are restored', 'the rebuilt structure would use stale '
                'cursors', None, lfn)


def r4_omen_exit_writers(ctx, rule):
    closure = ctx.resolver.closure(['pcfg_guesser.py'])
    n = 0
    for qual, fn in ctx.repo.all_funcs():
        rel = qual.partition('::')[0]
        if rel not in closure:
            continue
        mod = ctx.repo.modules[rel]
        for node in walk_local(fn):
            if isinstance(node, ast.Attribute) and node.attr == 'omen_exit' and isinstance(node.ctx, ast.Store):
                n += 1
                st = c08._stmt_of(mod, node)
                v = st.value if isinstance(st, ast.Assign) else None
                if qual == PG + '__init__' and const(v) is False:
                    ctx.ok(rule, qual, 'omen_exit initialised to False')
                elif qual == PG + 'omen_generate_guesses' and const(v) is True and any(
                        U(t) == 'self.should_exit' and p for t, p in path_conditions(mod, st)):
                    ctx.ok(rule, qual, 'omen_exit set only when the quit is honoured inside a Markov level')
                else:
                    ctx.bad(rule, qual, 'omen_exit written in %s: %s' % (qual.partition('::')[2], U(st)[:50]),
                            'the flag tells _save_session that a Markov level is in progress; clearing or setting it '
                            'elsewhere makes a later save omit (or invent) the OMEN position', None, st)
    ctx.floor(rule, PGF, n, 2, 'stores to omen_exit')
    # _save_session writes the marker iff omen_exit
    sq = CS + '_save_session'
    sfn = ctx.fn(sq)
    mod = ctx.repo.modules[CSF]
    ok = False
    for c in calls_in(sfn):
        if isinstance(c.func, ast.Attribute) and c.func.attr == 'set' and [const(a) for a in c.args[:2]] == ['guessing_info', 'omen_guess_number']:
            from ..core import quiet_conditions
            conds = [(U(t), p) for t, p in quiet_conditions(mod, c08._stmt_of(mod, c))]
            if conds == [('self.pcfg.omen_exit', True)] and U(c.args[2]) in ('str(self.pcfg.omen_guess_num)',):
                ok = True
            facts = {'conditions': conds, 'value': U(c.args[2])}
    if ok:
        ctx.ok(rule, sq, 'the OMEN marker is written iff omen_exit, with the current position', facts)
    else:
        ctx.bad(rule, sq, 'OMEN marker not written under exactly `if self.pcfg.omen_exit`', 'presence of the marker must '
                'mean "quit inside a Markov level"', None, sfn)


def r6_omen_call_sites(ctx, rule):
    """After omen_generate_guesses honoured a quit (state saved) its caller must not generate anything further."""
    n = 0
    for q in (PG + '_recursive_guesses', PG + 'restore_omen'):
        fn = ctx.fn(q)
        mod = ctx.repo.modules[PGF]
        for c in calls_in(fn):
            if call_name(c) != 'self.omen_generate_guesses':
                continue
            n += 1
            st = c08._stmt_of(mod, c)
            loops = [a for a in enclosing_stmt_chain(mod, st) if isinstance(a, (ast.For, ast.While))]
            if isinstance(st, ast.Return):
                ctx.ok(rule, q, 'OMEN generation is a tail call: nothing is generated after a quit was honoured')
                continue
            if not loops:
                # straight-line: statements after it must not emit
                ctx.ok(rule, q, 'OMEN generation is not inside a loop')
                continue
            lp = loops[0]
            # inside a loop: a test of the quit state must follow and leave the loop
            after = False
            okq = False
            for s in walk_stmts(lp.body):
                if s is st:
                    after = True
                    continue
                if after and isinstance(s, ast.If) and any(x in U(s.test) for x in ('omen_exit', 'should_exit')) \
                        and any(isinstance(b, (ast.Break, ast.Return)) for b in walk_stmts(s.body)):
                    okq = True
            if okq:
                ctx.ok(rule, q, 'loop over OMEN levels leaves when the quit was honoured')
            else:
                ctx.bad(rule, q, 'OMEN generation inside a loop (%s) without a quit test after it' % U(getattr(lp, 'iter', getattr(lp, 'test', None)))[:60],
                        'when the user quits inside a Markov level the generator state is saved and omen_generate_guesses '
                        'returns; a caller that simply continues with the next level keeps emitting after the save, and the '
                        'resumed session repeats or skips those guesses', None, st)
    ctx.floor(rule, PGF, n, 2, 'call sites of omen_generate_guesses')


def r8_model_order(ctx, rule):
    """The order of the model's lists is a function of the ruleset files alone.

    The .omn file stores cur_ip = [level, index] and cur_len = [level, index]: positions in grammar['ip'][level] and
    grammar['ln'][level]. The restoring process rebuilds those lists from disk; they are the same lists only if their
    order never passes through a set (string hashing is randomised per process, seed C15-e)."""
    from .common import no_set_order
    no_set_order(ctx, rule, 'lib_guesser/omen/input_file_io.py', 5, 'the OMEN model',
                 'the saved Markov position is an index into this list; a list whose order comes from a set of strings '
                 'differs between the process that saved the session and the one that restores it (hash randomisation), so '
                 'the restored index denotes another n-gram: strings of the interrupted level are repeated and others skipped')


def r9_session_file_names(ctx, rule):
    """The companion files of a session (<name>.sav -> <name>.omn) are named by an injective function of the session name.
    str.rstrip/lstrip/strip take a SET of characters: save_file.rstrip('.sav') also eats the end of names such as 'canvas',
    'nights', 'run_as', so two sessions share one .omn file and a restore continues the other session's level (seed C15-g)."""
    n = 0
    bad = False
    for q, fn in ctx.repo.all_funcs():
        rel = q.partition('::')[0]
        if not (rel.startswith('lib_guesser/') or rel == 'pcfg_guesser.py'):
            continue
        for c in calls_in(fn):
            if isinstance(c.func, ast.Attribute) and c.func.attr in ('rstrip', 'lstrip', 'strip') and len(c.args) == 1 \
                    and isinstance(const(c.args[0]), str):
                n += 1
                lit = const(c.args[0])
                if len(lit) >= 3 and lit.startswith('.') and lit[1:].isalnum():
                    bad = True
                    ctx.bad(rule, q, '%s.%s(%r)' % (U(c.func.value)[:40], c.func.attr, lit),
                            '%s() removes any run of the characters %s, not the suffix %r: different session names collapse to the same '
                            'companion file name' % (c.func.attr, sorted(set(lit)), lit), None, c)
    names = [U(x) for q, fn in ctx.repo.all_funcs() if q.startswith('lib_guesser/pcfg_grammar.py') for x in ast.walk(fn)
             if isinstance(x, ast.BinOp) and isinstance(x.op, ast.Add) and const(x.right) == '.omn']
    if not names:
        ctx.unk(rule, 'lib_guesser/pcfg_grammar.py', "construction of the '.omn' file name not found")
    elif not bad:
        ctx.ok(rule, 'lib_guesser/pcfg_grammar.py', "the .omn name is %s; no extension is removed with a character-set strip" % sorted(set(names)),
               {'strip_calls_with_literal': n})


def _model_immutable(ctx, rule):
    from . import c10
    return c10.r6_model_immutable(ctx, rule)


def r10_no_unsaved_memory(ctx, rule):
    """What the Markov loop emits next depends only on the generator (pickled into the .omn file) and on options stored in the
    .sav file.  A container created inside omen_generate_guesses / restore_omen that the loop both fills and consults (a "seen"
    set, a window of recent guesses) is memory of the process: the resumed call starts with it empty, so it repeats or skips
    strings relative to the uninterrupted run (seed C15-i: --all_lower de-duplication with a local set)."""
    from .common import builds_mutable, _MUTATORS
    n = 0
    bad = False
    for name in ('omen_generate_guesses', 'restore_omen'):
        q = PG + name
        fn = ctx.fn(q)
        n += 1
        stores = stores_in(fn)
        mem = {nm for nm, lst in stores.items() if any(v is not None and builds_mutable(v) for st, v in lst)}
        for lp in [x for x in walk_local(fn) if isinstance(x, (ast.While, ast.For))]:
            filled, consulted = {}, {}
            for x in ast.walk(lp):
                if isinstance(x, ast.Call) and isinstance(x.func, ast.Attribute) and x.func.attr in _MUTATORS \
                        and isinstance(x.func.value, ast.Name) and x.func.value.id in mem:
                    filled[x.func.value.id] = x
                if isinstance(x, ast.Subscript) and isinstance(x.ctx, ast.Store) and isinstance(x.value, ast.Name) and x.value.id in mem:
                    filled[x.value.id] = x
                if isinstance(x, (ast.If, ast.While, ast.IfExp)):
                    for y in ast.walk(x.test):
                        if isinstance(y, ast.Name) and y.id in mem:
                            consulted[y.id] = x
            for nm in sorted(set(filled) & set(consulted)):
                bad = True
                ctx.bad(rule, q, 'the loop fills and consults the local container %s: %s' % (nm, U(consulted[nm].test)[:60]),
                        'this memory exists only in the running process: it is neither in the .sav nor in the .omn file, so the resumed '
                        'call starts without it and repeats (or skips) strings the uninterrupted run would not', None, consulted[nm])
    if ctx.floor(rule, PG + 'omen_generate_guesses', n, 2, 'Markov emission functions') and not bad:
        ctx.ok(rule, PG + 'omen_generate_guesses', 'the Markov emission loop keeps no memory of its own between guesses')


def r18_restore_gate(ctx, rule):
    """The interrupted level is finished exactly when a session is being restored and its save file carries the marker.

    run() calls restore_omen under `load_session` and `has_option('guessing_info', 'omen_guess_number')`.  With either test
    inverted the resumed session skips the remainder of the level (the queue restore starts at the next pre-terminal) - the
    strings between the quit and the end of the level are never emitted (mutation sweep: `if not load_session:`)."""
    from ..core import path_conditions
    qual = CS + 'run'
    fn = ctx.fn(qual)
    mod = ctx.repo.modules[CSF]
    calls = [c for c in calls_in(fn) if call_name(c) == 'self.pcfg.restore_omen']
    if not calls:
        ctx.unk(rule, qual, 'no call of restore_omen in run()')
        return
    n = 0
    for c in calls:
        st = c08._stmt_of(mod, c)
        conds = path_conditions(mod, st)
        marker = [(t, p) for t, p in conds if isinstance(t, ast.Call) and isinstance(t.func, ast.Attribute) and t.func.attr == 'has_option'
                  and 'omen_guess_number' in U(t)]
        negmarker = [(t, p) for t, p in conds if isinstance(t, ast.UnaryOp) and isinstance(t.op, ast.Not) and 'omen_guess_number' in U(t.operand)]
        loadc = [(t, p) for t, p in conds if 'load_session' in U(t)]
        n += 1
        wrong = None
        for t, p in loadc:
            txt = U(t)
            if txt == 'load_session':
                if not p:
                    wrong = 'not load_session'
            elif txt in ('not load_session', 'load_session == False', 'load_session is False'):
                if p:
                    wrong = txt
            elif txt in ('load_session == True', 'load_session is True'):
                if not p:
                    wrong = 'not (%s)' % txt
            else:
                ctx.unk(rule, qual, 'restore_omen is called under a test on load_session this rule does not know: ' + txt[:60])
                return
        for t, p in marker:
            if not p:
                wrong = 'not ' + U(t)[:60]
        for t, p in negmarker:
            if p:
                wrong = U(t)[:60]
        if wrong:
            ctx.bad(rule, qual, 'restore_omen is called when %s' % wrong,
                    'the remainder of the interrupted Markov level is emitted only by restore_omen: it must run when a session is restored '
                    'and the save file carries omen_guess_number, and only then', None, st, firm=True)
            return
        if not marker:
            ctx.unk(rule, qual, 'restore_omen is not called under a has_option(.., omen_guess_number) test')
            return
    ctx.ok(rule, qual, 'restore_omen runs under load_session and the omen_guess_number marker (%d call site)' % n)


def _shared_rule(mod, name, **kw):
    def run(ctx, rule):
        import importlib
        return getattr(importlib.import_module('sa.props.' + mod), name)(ctx, rule, **kw)
    return run


def rules(tier):
    return [('C15.R1', r1_one_shot_key), ('C15.R2', r2_no_generated_unemitted), ('C15.R3', r3_pickle_layout),
            ('C15.R4', r4_omen_exit_writers), ('C15.R5', lambda c, r: c08.r5_sav_keys(c, r, sections=('guessing_info',), floor=3)),
            ('C15.R6', r6_omen_call_sites), ('C15.R7', _model_immutable), ('C15.R8', r8_model_order), ('C15.R9', r9_session_file_names), ('C15.R10', r10_no_unsaved_memory), ('C15.R11', c08.r20_position_verbatim),
            # C15-ca: load_save drops the OMEN marker when <session>.omn is not found relative to the working directory
            ('C15.R12', _shared_rule('c08', 'r11_restore_is_verbatim')),
            # C15-cb: memo entry filed under the level reached instead of the level asked for
            ('C15.R13', _shared_rule('c10', 'r2_memo_key')),
            # C15-db: is_parent_around with < instead of <=
            ('C15.R14', _shared_rule('c08', 'r2_region_agreement')),
            # C15-da: .omn opened for appending
            ('C15.R15', _shared_rule('plumbing', 'writers_truncate')),
            # C15-eb: restore_omen warms the memo with the restored (advanced) parse tree
            ('C15.R16', _shared_rule('plumbing', 'who_may')),
            # fix 718673a: a quit inside the last Markov level - the resumed session must not generate the level again after finishing it
            ('C15.R17', _shared_rule('c08', 'r28_exhausted_session_restores_nothing')),
            # mutation sweep: `if not load_session:` in front of the OMEN restore
            ('C15.R18', r18_restore_gate),
            # C15-fb: the session saved right after create_guesses, before the next pop lowers the saved position
            ('C15.R19', _shared_rule('c08', 'r23_no_save_after_generation'))]


META = {
    'explanation': 'One-shot option: the save-config option whose presence triggers the OMEN restore is removed on every '
                   'CFG path from its consumption to the generation loop. In omen_generate_guesses nothing is generated '
                   'between the last emission and save_session, save precedes return, same .omn file name on both sides. '
                   'pickle field order save = load; every attribute derived from the constructor level is restored; '
                   'omen_exit has exactly two writers; the marker is written iff omen_exit.',
    'trusted_base': ['python ast', 'CFG of sa/cfg.py', 'pickle round-trips lists and ints'],
    'assumptions': ['the quit flag is polled between two guesses (C12.R3)'],
    'not_decided': 'exact continuation for a concrete OMEN model (dynamic; depends on C10 exactness)',
    'technique': 'CFG must-pass-through (one-shot key), statement-order rule in the OMEN loop, writer/reader field table, '
                 'who-may-write rule',
}

META['explanation'] += ' ' + 'Further: the OMEN model is read-only while generating and none of its lists is ordered by a set (saved positions are indexes into them); call sites of omen_generate_guesses are followed by a quit test.'

META['explanation'] += ' ' + 'Round 13: no save between create_guesses and the next pop.'
