"""C16 - honeywords are drawn from the grammar with the grammar's probabilities (DESIGN section 4, C16)."""
import ast

from ..core import (TU, U, walk_local, calls_in, call_name, const, NOCONST, params, stores_in, single_def, expand,
                    walk_stmts, arg_for, kwarg, path_conditions, enclosing_stmt_chain, dotted)
from ..cfg import CFG
from ..effects import nondet_source
from .common import PG, PGF
from . import c01, c04, c08, c09

HSF = 'lib_guesser/honeyword_session.py'
HS = HSF + '::HoneywordSession.'
RW = PG + 'random_walk'
HG = PG + '_honeyword_recursive_guess'


def r1_walk_weights(ctx, rule):
    fn = ctx.fn(RW)
    mod = ctx.repo.modules[PGF]
    ok = True
    # every target is exactly random.random()
    targets = [s for s in walk_stmts(fn.body) if isinstance(s, ast.Assign) and U(s.targets[0]) == 'prob_target']
    facts = {'targets': [U(s.value) for s in targets]}
    if len(targets) != 2 or any(U(s.value) != 'random.random()' for s in targets):
        ok = False
        ctx.bad(rule, RW, 'draw targets %s' % facts['targets'], 'each selection compares the cumulative weight with one uniform '
                'draw on [0,1): scaling the draw (or re-using one) changes the distribution', facts, fn)
    # cumulative updates: which element of which table each weight is taken from, whatever the loop looks like
    accs = [s for s in walk_stmts(fn.body) if isinstance(s, ast.AugAssign) and U(s.target) == 'cur_prob' and isinstance(s.op, ast.Add)]
    facts['weights'] = [U(s.value) for s in accs]
    stores_ = stores_in(fn)
    elem = {}           # loop variable -> text of the table it is an element of
    for lp in [n for n in walk_local(fn) if isinstance(n, ast.For)]:
        if isinstance(lp.target, ast.Name) and not (isinstance(lp.iter, ast.Call) and call_name(lp.iter) in ('range', 'enumerate')):
            elem[lp.target.id] = U(lp.iter)
        if isinstance(lp.target, ast.Tuple) and len(lp.target.elts) == 2 and isinstance(lp.iter, ast.Call) and call_name(lp.iter) == 'enumerate' \
                and lp.iter.args and isinstance(lp.target.elts[1], ast.Name):
            elem[lp.target.elts[1].id] = U(lp.iter.args[0])

    def loop_table(name_node):
        cur = mod.parents.get(id(name_node))
        while cur is not None and cur is not fn:
            if isinstance(cur, ast.For):
                if isinstance(cur.target, ast.Name) and cur.target.id == name_node.id and not (
                        isinstance(cur.iter, ast.Call) and call_name(cur.iter) in ('range', 'enumerate')):
                    return U(cur.iter)
                if isinstance(cur.target, ast.Tuple) and len(cur.target.elts) == 2 and isinstance(cur.target.elts[1], ast.Name) \
                        and cur.target.elts[1].id == name_node.id and isinstance(cur.iter, ast.Call) and call_name(cur.iter) == 'enumerate' and cur.iter.args:
                    return U(cur.iter.args[0])
            cur = mod.parents.get(id(cur))
        return None

    def table_of(e):
        """text of the table that expression e is an element of (`x` of `for x in T`, `T[i]`), or None"""
        if isinstance(e, ast.Name) and e.id in elem:
            return loop_table(e) or elem[e.id]
        if isinstance(e, ast.Name):
            e = expand(fn, e, stores_, depth=1)
        if isinstance(e, ast.Subscript) and not isinstance(e.slice, ast.Slice):
            return U(e.value)
        return None

    def weight_kind(v):
        if isinstance(v, ast.Subscript) and const(v.slice) == 'prob':
            t = table_of(v.value)
            return ('elem-prob', t) if t else None
        if isinstance(v, ast.BinOp) and isinstance(v.op, ast.Mult):
            for a_, b_ in ((v.left, v.right), (v.right, v.left)):
                if isinstance(a_, ast.Subscript) and const(a_.slice) == 'prob' and isinstance(b_, ast.Call) and call_name(b_) == 'len' and b_.args \
                        and isinstance(b_.args[0], ast.Subscript) and const(b_.args[0].slice) == 'values' \
                        and table_of(a_.value) is not None and table_of(a_.value) == table_of(b_.args[0].value) \
                        and U(expand(fn, a_.value, stores_)) == U(expand(fn, b_.args[0].value, stores_)):
                    return ('elem-prob*len(values)', table_of(a_.value))
        return None
    kinds = [weight_kind(s.value) for s in accs]
    facts['weight_kinds'] = kinds
    kinds = [(k[0], 'self.grammar[<type of the position>]' if k and k[1].startswith('self.grammar[') else k[1]) if k else None for k in kinds]
    want_kinds = [('elem-prob', 'self.base'), ('elem-prob*len(values)', 'self.grammar[<type of the position>]')]
    if any(k is None for k in kinds):
        ok = False
        ctx.unk(rule, RW, 'cumulative weights %s are not understood' % facts['weights'], facts)
    elif sorted(kinds, key=str) != sorted(want_kinds, key=str):
        ok = False
        ctx.bad(rule, RW, 'cumulative weights %s' % facts['weights'],
                "a base structure is chosen with weight prob; a group with weight prob * len(values) (a group's probability is "
                "the probability of EACH of its values, and one value is then picked uniformly)", facts, fn)
    # resets, comparisons, loop ranges
    resets = [s for s in walk_stmts(fn.body) if isinstance(s, ast.Assign) and U(s.targets[0]) == 'cur_prob' and const(s.value) == 0]
    tests = [n for n in walk_local(fn) if isinstance(n, ast.If) and 'prob_target' in U(n.test)]
    facts['tests'] = [U(t.test) for t in tests]
    if len(resets) != 2 or len(tests) != 2 or any(U(t.test) not in ('cur_prob >= prob_target', 'prob_target <= cur_prob', 'cur_prob > prob_target',
                                                                     'prob_target < cur_prob') for t in tests):
        ok = False
        ctx.bad(rule, RW, 'selection tests %s / %d resets' % (facts['tests'], len(resets)), 'select the first item whose cumulative '
                'weight reaches the draw; restart the sum for every position', facts, fn)
    loops = [n for n in walk_local(fn) if isinstance(n, ast.For)]
    iters = [U(l.iter) for l in loops]
    facts['loops'] = iters
    need = ['self.base', "item['replacements']", "enumerate(pt_item['pt'])", 'range(0, max_index)']
    stmt_texts = {U(s_) for s_ in walk_stmts(fn.body) if isinstance(s_, ast.Assign)}
    if sorted(iters) != sorted(need) or "max_index = len(self.grammar[pt_type])" not in stmt_texts:
        # other spellings of "every element of the table": for x in T / for i, x in enumerate(T) / for i in range(len(T))
        def covers(tbl):
            for l in loops:
                it = l.iter
                if U(it) == tbl or (isinstance(it, ast.Call) and call_name(it) == 'enumerate' and len(it.args) == 1 and U(it.args[0]) == tbl):
                    return True
                if isinstance(it, ast.Call) and call_name(it) == 'range' and it.args and \
                        (U(it.args[-1]) == 'len(%s)' % tbl or U(expand(fn, it.args[-1], stores_, depth=1)) == 'len(%s)' % tbl) \
                        and (len(it.args) == 1 or (len(it.args) == 2 and const(it.args[0]) == 0)):
                    return True
            return False
        if all(covers(t) for t in ('self.base', "pt_item['pt']")) and (covers('self.grammar[pt_type]') or covers('self.grammar[item[0]]')) and \
                not any(isinstance(x, ast.Continue) for l in loops for x in ast.walk(l)):
            pass
        elif any(isinstance(n, ast.While) for n in walk_local(fn)):
            ok = False
            ctx.unk(rule, RW, 'candidate loops %s (and while loops) are not understood' % iters, facts)
        else:
            ok = False
            ctx.bad(rule, RW, 'loops %s' % iters, 'all base structures, all positions and all groups of a position must be candidates', facts, fn)
    # the chosen index is stored for the position; every selection ends with break
    sel = [s for s in walk_stmts(fn.body) if isinstance(s, ast.Assign) and isinstance(s.targets[0], ast.Subscript)
           and U(s.targets[0].value) == "pt_item['pt']"]
    def type_of_position(e):
        t = U(e)
        x = U(expand(fn, e, stores_, depth=2))
        pos = U(sel[0].targets[0].slice) if sel else 'pointer'
        for l in loops:
            if isinstance(l.target, ast.Tuple) and len(l.target.elts) == 2 and isinstance(l.target.elts[1], ast.Tuple) and l.target.elts[1].elts \
                    and U(l.target.elts[1].elts[0]) == t and U(l.iter) == "enumerate(pt_item['pt'])":
                return True
        return any(v in ('item[0]', "pt_item['pt'][%s][0]" % pos) for v in (t, x)) or \
            (t == 'pt_type' and any(w in TU(fn) for w in ("pt_type = item[0]", "pt_type = pt_item['pt'][%s][0]" % pos)))
    sel_ok = len(sel) == 1 and isinstance(sel[0].value, ast.Tuple) and len(sel[0].value.elts) == 2 and type_of_position(sel[0].value.elts[0])
    if not sel_ok:
        ok = False
        ctx.bad(rule, RW, 'selected group stored as %s' % [U(s.value) for s in sel], 'the position must point to the selected group', facts, fn)
    for t in tests:
        if not t.body or not isinstance(t.body[-1], ast.Break):
            ok = False
            ctx.bad(rule, RW, 'selection does not stop at the first hit', 'later items would overwrite the selection', facts, t)
    if "pt_item['prob'] = self._find_prob(pt_item['pt'], pt_item['base_prob'])" not in TU(fn):
        ok = False
        ctx.bad(rule, RW, 'walk probability', 'prob = _find_prob(pt, base_prob)', facts, fn)
    if ok:
        ctx.ok(rule, RW, 'base structure ~ prob; group ~ prob * len(values); one uniform draw per selection', facts)


def r2_uniform_choice(ctx, rule):
    fn = ctx.fn(HG)
    d = c04.dispatch(fn)
    if d is None:
        ctx.unk(rule, HG, 'dispatch not found')
        return
    var, br, node = d
    ok = True
    # M branch returns 0 without writing
    mb = br['M']
    if not (len([s for s in mb if not isinstance(s, ast.Expr)]) == 1 and isinstance(mb[-1], ast.Return) and const(mb[-1].value) == 0):
        ok = False
        ctx.bad(rule, HG, 'Markov branch: ' + U(mb)[:60], 'honeywords come from the non-Markov language: the M branch must produce '
                'nothing', None, node)
    for key in ('C', 'else'):
        body = br[key]
        loops = [n for s in body for n in walk_local(s) if isinstance(n, (ast.For, ast.While)) and not any(isinstance(y, ast.Name) and y.id == 'mask' for y in ast.walk(n.iter if isinstance(n, ast.For) else n.test))]
        choices = [c for s in body for c in calls_in(s) if call_name(c) == 'random.choice']
        facts = {'branch': key, 'choices': [U(c) for c in choices]}
        if loops:
            ok = False
            ctx.bad(rule, HG, '%s branch loops over %s' % (key, [U(l.iter if isinstance(l, ast.For) else l.test) for l in loops]), 'exactly one value of '
                    'the group is drawn', facts, loops[0])
        if len(choices) != 1 or not c04.is_group_values(ctx.fn(HG), choices[0].args[0]):
            ok = False
            ctx.bad(rule, HG, '%s branch draws %s' % (key, facts['choices']), "the value must be drawn uniformly from the whole "
                    "group grammar[type][index]['values']", facts, node)
        prints = [c for s in body for c in calls_in(s) if call_name(c) == 'self.print_guess']
        if len(prints) != 1:
            ok = False
            ctx.bad(rule, HG, '%s branch writes %d times' % (key, len(prints)), 'one word per call chain', facts, node)
    if ok:
        ctx.ok(rule, HG, 'one random.choice over the whole group per level, at most one write, Markov yields nothing')
    c04.mask_application(ctx, rule, HG, br['C'], False)


ENTROPY = ('time.', 'os.urandom', 'secrets.', 'uuid.', 'datetime.', 'random.SystemRandom', 'os.getpid', 'hash', 'id')


def r3_seeding(ctx, rule):
    q = HS + 'run'
    fn = ctx.fn(q)
    mod = ctx.repo.modules[HSF]
    cfg = CFG(fn)
    seeds = [c for c in calls_in(fn) if call_name(c) == 'random.seed']
    walks = [c for c in calls_in(fn) if isinstance(c.func, ast.Attribute) and c.func.attr == 'random_walk']
    facts = {'seed_calls': [U(c) for c in seeds]}
    if not walks:
        ctx.unk(rule, q, 'random_walk call not found')
        return
    ok = True
    if not seeds:
        ok = False
        ctx.bad(rule, q, 'no random.seed before the walk', 'random_walk mode must be reproducible', facts, fn)
    else:
        sn = {cfg.node_of(c08._stmt_of(mod, c)) for c in seeds}
        wn = cfg.node_of(c08._stmt_of(mod, walks[0]))
        ctx.stats['paths'] += 1
        if not cfg.every_path_passes(cfg.entry, wn, sn):
            ok = False
            ctx.bad(rule, q, 'a path reaches random_walk() without seeding', 'every draw must be dominated by a deterministic seed', facts, walks[0])
        for c in seeds:
            arg = c.args[0] if c.args else None
            if arg is None:
                ok = False
                ctx.bad(rule, q, 'random.seed() without argument', 'seeds from OS entropy', facts, c)
                continue
            bad_calls = [U(x) for x in ast.walk(arg) if isinstance(x, ast.Call)]
            if bad_calls or U(arg) != 'self.random_seed':
                ok = False
                ctx.bad(rule, q, 'seed argument ' + U(arg)[:70], 'the seed must be built from constants and the word counter only; '
                        'hash() of strings is salted per process, time/uuid/pid differ per run', facts, c)
    # definitions of the seed attribute
    defs = []
    for qual, f in ctx.repo.all_funcs():
        if not qual.startswith(HSF):
            continue
        for n in walk_local(f):
            if isinstance(n, (ast.Assign, ast.AugAssign)) and U(n.targets[0] if isinstance(n, ast.Assign) else n.target) == 'self.random_seed':
                m2 = ctx.repo.modules[HSF]
                conds = [(U(t), p) for t, p in path_conditions(m2, n)]
                defs.append((qual, U(n), conds, n))
    facts['seed_definitions'] = [(d[1], d[2]) for d in defs]
    det_init = False
    for qual, txt, conds, n in defs:
        if isinstance(n, ast.AugAssign):
            if not (isinstance(n.op, ast.Add) and isinstance(const(n.value), int)):
                ok = False
                ctx.bad(rule, qual, 'seed update ' + txt, 'the per-word seed must advance by a constant', facts, n)
            elif const(n.value) == 0 or isinstance(const(n.value), bool):
                ok = False
                ctx.bad(rule, qual, 'seed update ' + txt, 'the seed does not advance: every word is drawn with the same seed - the same '
                        'derivation N times instead of N independent draws', facts, n, firm=True)
            continue
        v = n.value
        if isinstance(const(v), int):
            if ("self.mode == 'random_walk'", True) in conds:
                det_init = True
            continue
        # non-constant initial seed: only allowed outside random_walk mode
        if ("self.mode == 'random_walk'", False) in conds:
            continue
        ok = False
        ctx.bad(rule, qual, 'initial seed ' + txt + ' under %s' % conds, 'in random_walk mode the initial seed must be a constant', facts, n)
    # the seed advances between two words: some definition of the seed sits inside the generation loop of run()
    run_fn = ctx.fn(HS + 'run')
    run_loops = [x for x in walk_local(run_fn) if isinstance(x, (ast.While, ast.For))]
    in_loop = [n for qual, txt, conds, n in defs if any(n is y for lp in run_loops for y in ast.walk(lp))]
    if run_loops and not in_loop:
        reseeded = any(isinstance(y, ast.Call) and call_name(y) == 'random.seed' for lp in run_loops for y in ast.walk(lp))
        if reseeded:
            ok = False
            ctx.bad(rule, HS + 'run', 'random.seed(self.random_seed) in the word loop, the seed is never changed there',
                    'every word is drawn with the same seed - the same derivation N times instead of N independent draws', facts, run_loops[0], firm=True)
    if not det_init:
        ok = False
        ctx.bad(rule, HS + '__init__', 'no constant seed for random_walk mode', 'random_walk mode must start from a fixed seed', facts, None)
    # no other entropy reachable
    cg = ctx.cg
    closure = ctx.resolver.closure(['pcfg_guesser.py'])
    par = cg.reach([q], closure)
    for fq in sorted(par):
        ctx.stats['functions'].add(fq)
        for call, tgts in cg.calls(fq, closure):
            for t in tgts:
                if t.startswith('ext:'):
                    nm = t[4:]
                    if nm in ('random.random', 'random.choice', 'random.seed', 'time.sleep'):
                        continue
                    if nondet_source(nm) and not nm.startswith('random.randint'):
                        ok = False
                        ctx.bad(rule, fq, 'entropy source ' + nm, 'besides the seeded generator no other source of randomness may '
                                'influence the words (path %s)' % ' -> '.join(cg.path_to(par, fq)), facts, call)
                    if nm in ('random.Random', 'random.SystemRandom'):
                        ok = False
                        ctx.bad(rule, fq, 'separate generator ' + nm, 'an unseeded generator object is not reproducible', facts, call)
    if ok:
        ctx.ok(rule, q, 'random.seed(self.random_seed) dominates every walk; seed = 1, 2, 3, ... in random_walk mode; no other entropy', facts)


def r4_limit(ctx, rule):
    return c09.r2_pairing(ctx, rule, quals=[HS + 'run', HG], floor=5, extend=False)


def _renorm(ctx, rule):
    from . import c14
    return c14.r2_renormalisation(ctx, rule)


def _loaders_read_only(ctx, rule):
    from . import c14
    return c14.r11_loaders_read_only(ctx, rule)


def _loader_complete(ctx, rule):
    # a terminal the loader drops has chance 0 instead of its ruleset probability (seed C16-g: whitespace-only values)
    from . import c07
    return c07.r10_loader_complete(ctx, rule)


def _loader_strip(ctx, rule):
    from . import c07
    return c07.r5_strip_discipline(ctx, rule, only=('lib_guesser/grammar_io.py::_load_from_file', 'lib_guesser/grammar_io.py::_load_base_structures'), floor=2)


def _mask_insertion(ctx, rule):
    # derivations whose last word is capitalised have chance 0 when the loader leaves out its mask transition (seed C16-h)
    from . import c03
    return c03.r3_mask_insertion(ctx, rule)


def _flags_reach_grammar(ctx, rule):
    # honeywords are drawn from the language the options select: --skip_brute / --all_lower must reach PcfgGrammar on every path
    # through main(), whatever the mode (seed C16-j passed skip_case only in true_prob_order mode)
    from . import c14
    return c14.r4_restored_flags_live(ctx, rule)


def _options_forwarded(ctx, rule):
    from . import c14
    return c14.r13_options_forwarded(ctx, rule)


def r17_honeyword_recursion_shape(ctx, rule):
    """_honeyword_recursive_guess writes the word exactly when the last transition has been applied (`len(pt) == 1`) and recurses on
    pt[1:] otherwise - in every branch of the dispatch.  (Mutation sweep: `len(pt) != 1` printed every proper prefix of a word and
    never a complete one, silently.)"""
    fn = ctx.fn(HG)
    mod = ctx.repo.modules[PGF]
    ctx.stats['functions'].add(HG)
    prints = [c for c in calls_in(fn) if call_name(c) == 'self.print_guess']
    recs = [c for c in calls_in(fn) if call_name(c) == 'self._honeyword_recursive_guess']
    if not ctx.floor(rule, HG, len(prints), 2, 'writes in the honeyword emitter') or not ctx.floor(rule, HG, len(recs), 2, 'recursive calls in the honeyword emitter'):
        return
    ok = True

    def base_pol(c):
        vals = []
        for t, pol in path_conditions(mod, c08._stmt_of(mod, c)):
            tt = U(t).replace(' ', '')
            if tt in ('len(pt)==1', '1==len(pt)'):
                vals.append(pol)
            elif tt in ('len(pt)!=1', 'len(pt)>1', '1!=len(pt)', '1<len(pt)'):
                vals.append(not pol)
            elif 'len(pt)' in tt:
                vals.append(None)
        return vals
    for c in prints:
        v = base_pol(c)
        if v != [True]:
            ok = False
            if v and all(x is not None for x in v):
                ctx.bad(rule, HG, 'the word is written when len(pt) == 1 is %s' % v, 'the word is complete exactly when the last transition has been applied',
                        None, c, firm=True)
            else:
                ctx.unk(rule, HG, 'the condition under which the honeyword emitter writes is not of a form this rule knows')
    for c in recs:
        v = base_pol(c)
        if v != [False]:
            ok = False
            if v and all(x is not None for x in v):
                ctx.bad(rule, HG, 'the recursion runs when len(pt) == 1 is %s' % v, 'recurse on the rest exactly while transitions remain', None, c, firm=True)
            else:
                ctx.unk(rule, HG, 'the condition under which the honeyword emitter recurses is not of a form this rule knows')
        if len(c.args) >= 2 and U(c.args[1]) != 'pt[1:]':
            ok = False
            ctx.bad(rule, HG, 'recursion on ' + U(c.args[1]), 'the recursion continues with the rest of the parse tree pt[1:]', None, c, firm=True)
    if ok:
        ctx.ok(rule, HG, '%d writes under len(pt) == 1, %d recursions on pt[1:] otherwise' % (len(prints), len(recs)))


def r15_restore_only_in_probability_order_mode(ctx, rule):
    """--load means "continue the saved true_prob_order session"; the honeyword and random-walk modes have nothing to resume and
    take ruleset and options from the command line.  In pcfg_guesser.main the call of load_save is guarded by the mode test.
    (Seed C16-da dropped the test: `--mode honeywords --load` then overwrites rule_name / skip_brute / skip_case from <session>.sav -
    the words come from another ruleset than the one asked for - or prints nothing when no .sav exists.)"""
    q = 'pcfg_guesser.py::main'
    fn = ctx.fn(q)
    mod = ctx.repo.modules['pcfg_guesser.py']
    ctx.stats['functions'].add(q)
    calls = [c for c in calls_in(fn) if call_name(c) == 'load_save']
    if len(calls) != 1:
        ctx.unk(rule, q, 'expected one load_save call in main (found %d)' % len(calls))
        return
    st = c08._stmt_of(mod, calls[0])
    conds = path_conditions(mod, st)
    texts = [(U(t), pol) for t, pol in conds]
    guarded = False
    for t, pol in conds:
        for x in ast.walk(t):
            if isinstance(x, ast.Compare) and len(x.ops) == 1 and 'cracking_mode' in U(x):
                consts = [const(y) for y in [x.left] + list(x.comparators) if isinstance(const(y), str)]
                if consts == ['true_prob_order'] and isinstance(x.ops[0], ast.Eq) and pol:
                    guarded = True
                if isinstance(x.ops[0], (ast.In, ast.NotIn)) or (consts and consts != ['true_prob_order']):
                    guarded = guarded or None
    if guarded is True:
        ctx.ok(rule, q, 'load_save runs only under cracking_mode == true_prob_order', {'conditions': texts})
    elif guarded is None:
        ctx.unk(rule, q, 'the mode test in front of load_save is not of a form this rule knows: %s' % texts)
    else:
        ctx.bad(rule, q, 'load_save runs under %s' % (texts or 'no condition'),
                'in honeyword / random-walk mode --load replaces the ruleset and the flags given on the command line by those of a saved '
                'cracking session (or ends the run when there is none): the words no longer come from the requested grammar', None, calls[0], firm=True)


def r14_walk_loop_exits(ctx, rule):
    """'exactly N words are produced for --limit N': the loop of HoneywordSession.run that draws one walk per round is left only
    when the limit is used up or the reader of the words has gone (OSError).  Any other way out ends the session short
    (seed C16-o: a counter of walks that produced nothing - two Markov draws in a row are not a reason to stop)."""
    q = HS + 'run'
    fn = ctx.repo.fn(q)
    mod = ctx.repo.modules[HSF]
    ctx.stats['functions'].add(q)
    loop = None
    for n in walk_local(fn):
        if isinstance(n, (ast.While, ast.For)) and any(isinstance(c, ast.Call) and (call_name(c) or '').endswith('random_walk')
                                                      for c in ast.walk(n)):
            loop = n        # innermost wins: walk_local is pre-order, later = deeper
    if loop is None:
        ctx.unk(rule, q, 'no loop around the call of random_walk found')
        return
    lim = [p for p in params(fn) if p != 'self']
    derived = set(lim)
    changed = True
    while changed:
        changed = False
        for n in walk_local(fn):
            if isinstance(n, (ast.Assign, ast.AugAssign, ast.AnnAssign)) and getattr(n, 'value', None) is not None:
                tg = n.targets if isinstance(n, ast.Assign) else [n.target]
                if any(isinstance(x, ast.Name) and x.id in derived for x in ast.walk(n.value)) \
                        and not any(isinstance(x, ast.Call) and call_name(x) not in ('int', 'max', 'min', 'abs') for x in ast.walk(n.value)):
                    for t in tg:
                        if isinstance(t, ast.Name) and t.id not in derived:
                            derived.add(t.id)
                            changed = True

    def mentions_limit(e):
        return any(isinstance(x, ast.Name) and x.id in derived for x in ast.walk(e))

    def innermost_loop(st):
        for a in enclosing_stmt_chain(mod, st):
            if isinstance(a, (ast.While, ast.For)):
                return a
        return None

    def handler_of(st):
        cur = st
        while cur is not None and cur is not loop:
            par = mod.parents.get(id(cur))
            if isinstance(par, ast.ExceptHandler):
                return par
            cur = par
        return None

    benign_exc = {'OSError', 'IOError', 'EnvironmentError', 'BrokenPipeError', 'ConnectionError', 'KeyboardInterrupt'}
    exits = []
    if isinstance(loop, ast.While) and not (isinstance(loop.test, ast.Constant) and loop.test.value):
        exits.append(('test', loop, [(loop.test, False)]))
    elif isinstance(loop, ast.For):
        exits.append(('test', loop, [(loop.iter, False)]))
    for st in walk_stmts(loop.body):
        if isinstance(st, ast.Break) and innermost_loop(st) is loop:
            exits.append(('break', st, None))
        elif isinstance(st, ast.Return):
            exits.append(('return', st, None))
    ok = True
    n_lim = 0
    for kind, st, conds in exits:
        h = handler_of(st) if kind != 'test' else None
        if h is not None:
            names = set()
            t = h.type
            for e in (t.elts if isinstance(t, ast.Tuple) else [t] if t is not None else []):
                names.add(U(e).split('.')[-1])
            if names and names <= benign_exc:
                continue
            ok = False
            ctx.unk(rule, q, 'the walk loop is left in a handler of %s - not a case this rule knows' % (sorted(names) or 'everything'))
            continue
        if conds is None:
            conds = path_conditions(mod, st, stop=loop)
        if any(mentions_limit(t) for t, _ in conds):
            n_lim += 1
            continue
        ok = False
        if kind == 'test':
            ctx.unk(rule, q, 'the walk loop runs under ' + U(loop.test if isinstance(loop, ast.While) else loop.iter)[:80] + ', which does not mention the limit')
        else:
            ctx.bad(rule, q, '%s under %s' % (kind, ' and '.join(('' if pol else 'not ') + U(t)[:50] for t, pol in conds) or 'no condition'),
                    'the walk loop is left for a reason that is neither the limit nor a closed pipe: fewer than --limit N words are produced',
                    {'limit_names': sorted(derived)}, st, firm=True)
    if ok:
        if n_lim == 0:
            ctx.unk(rule, q, 'no exit of the walk loop depends on the limit')
        else:
            ctx.ok(rule, q, 'the walk loop has %d exit(s): %d on the limit (%s), the rest in handlers of OSError' % (len(exits), n_lim, ', '.join(sorted(derived))))


def _shared_rule(mod, name, **kw):
    def run(ctx, rule):
        import importlib
        return getattr(importlib.import_module('sa.props.' + mod), name)(ctx, rule, **kw)
    return run


def rules(tier):
    return [('C16.R1', r1_walk_weights), ('C16.R2', r2_uniform_choice), ('C16.R3', r3_seeding), ('C16.R4', r4_limit),
            ('C16.R5', c01.r8_uniform_scale), ('C16.R6', _renorm), ('C16.R7', _loaders_read_only),
            ('C16.R8', c04.r12_output_point_total), ('C16.R9', _loader_complete),
            ('C16.R10', _loader_strip), ('C16.R11', _mask_insertion), ('C16.R12', _flags_reach_grammar), ('C16.R13', _options_forwarded), ('C16.R14', r14_walk_loop_exits),
            # C16-da: the session restore no longer checks the cracking mode
            ('C16.R15', _shared_rule('c16', 'r15_restore_only_in_probability_order_mode')),
            # mutation sweep: random walk positions seeded at index 1
            ('C16.R16', _shared_rule('plumbing', 'generator_glue')),
            # mutation sweep: len(pt) != 1 in the honeyword emitter
            ('C16.R17', _shared_rule('c16', 'r17_honeyword_recursion_shape')),
            # C16-eb: K* / X* terminals lower-cased after loading under --all_lower
            ('C16.R18', _shared_rule('plumbing', 'terminals_stored_as_read')),
            # C16-fa: --all_lower stored under a key main() never reads
            ('C16.R19', _shared_rule('plumbing', 'option_round_trip')),
            # C16-fb: grammar['M'] = grammar['E'] = grammar['W'] = []
            ('C16.R20', _shared_rule('c01', 'r11_sections_not_aliased'))]


META = {
    'explanation': 'Sampler shape: random_walk selects a base structure with cumulative weight prob and a group with weight '
                   'prob x len(values), each against one unscaled random.random(); the honeyword expansion draws '
                   'random.choice over the whole group, contains no loop over values, writes once, Markov yields nothing; in '
                   'random_walk mode a random.seed whose argument is the constant-initialised word counter dominates every walk '
                   'on the CFG and no other entropy source is reachable; limit pairing.',
    'trusted_base': ['python ast', 'CFG dominance', 'resolver/call graph', 'random.seed(int) fully determines the Mersenne Twister stream'],
    'assumptions': ['group probabilities sum (with multiplicity) to 1 per variable (C06)'],
    'not_decided': 'the sampling distribution as numbers',
    'technique': 'template rules on the sampler + CFG must-pass-through (seed dominates draws) + entropy-source effect rule',
}

META['explanation'] += ' ' + "Further: loaders are read-only (no persistent cache carrying another run's flags); print_guess reaches its write on every non-debug path; uniform scale and renormalisation shared from C01/C14."

META['explanation'] += ' ' + 'Round 13: every option parse_command_line stores is read under the same key elsewhere in the entry script; grammar sections are distinct lists.'
