"""C17 - PRINCE-LING emits the ruleset's words most-probable-first, up to the size asked (DESIGN section 4, C17)."""
import ast

from ..core import (U, walk_local, calls_in, call_name, const, NOCONST, params, stores_in, single_def, expand,
                    walk_stmts, arg_for, kwarg, path_conditions, enclosing_stmt_chain, dotted)
from ..iotable import IOTable
from .common import PG, PGF, PQ
from . import c01, c02, c04, c08, c09

WL = 'lib_princeling/wordlist_generation.py::create_prince_wordlist'
PL = 'prince_ling.py::main'
PM = 'lib_trainer/prince_metrics.py::prince_evaluation'


class _Unk(Exception):
    pass


def _val(node, env):
    """Value of an expression over representative integers / None; raises _Unk when it is not understood."""
    if isinstance(node, ast.Constant):
        return node.value
    t = U(node)
    if t in env:
        return env[t]
    if isinstance(node, ast.IfExp):
        return _val(node.body if _truth(node.test, env) else node.orelse, env)
    if isinstance(node, ast.BinOp) and isinstance(node.op, (ast.Add, ast.Sub)):
        a, b = _val(node.left, env), _val(node.right, env)
        if a is None or b is None:
            raise _Unk(t)
        return a + b if isinstance(node.op, ast.Add) else a - b
    if isinstance(node, ast.Call) and call_name(node) in ('max', 'min') and not node.keywords:
        vs = [_val(a, env) for a in node.args]
        if any(v is None for v in vs):
            raise _Unk(t)
        return max(vs) if call_name(node) == 'max' else min(vs)
    if isinstance(node, (ast.Compare, ast.BoolOp)) or (isinstance(node, ast.UnaryOp) and isinstance(node.op, ast.Not)):
        return _truth(node, env)
    raise _Unk(t)


def _truth(node, env):
    if isinstance(node, ast.BoolOp):
        if isinstance(node.op, ast.And):
            for v in node.values:
                if not _truth(v, env):
                    return False
            return True
        for v in node.values:
            if _truth(v, env):
                return True
        return False
    if isinstance(node, ast.UnaryOp) and isinstance(node.op, ast.Not):
        return not _truth(node.operand, env)
    if isinstance(node, ast.Compare) and len(node.ops) == 1:
        a, b = _val(node.left, env), _val(node.comparators[0], env)
        op = node.ops[0]
        if isinstance(op, ast.Is):
            return a is b
        if isinstance(op, ast.IsNot):
            return a is not b
        if isinstance(op, (ast.Eq, ast.NotEq)):
            return (a == b) if isinstance(op, ast.Eq) else (a != b)
        if a is None or b is None:
            raise _Unk(U(node))
        return {ast.Lt: a < b, ast.LtE: a <= b, ast.Gt: a > b, ast.GtE: a >= b}[type(op)]
    v = _val(node, env)
    return bool(v)


def r1_size_bound(ctx, rule):
    """One iteration of the generation loop, interpreted on representatives of (words written ? --size): the call of
    create_guesses is reached iff written < size (or there is no size), and it is handed exactly size - written (None
    without a size).  Accepts any spelling of the loop head (while <cond>, while True + break, budget in a temporary)."""
    fn = ctx.fn(WL)
    ps = params(fn)
    size = ps[1]
    loops = [n for n in walk_local(fn) if isinstance(n, ast.While)]
    if len(loops) != 1:
        ctx.unk(rule, WL, 'generation loop not found')
        return
    lp = loops[0]
    acc = [s_ for s_ in walk_stmts(lp.body) if isinstance(s_, ast.AugAssign) and isinstance(s_.op, ast.Add)
           and isinstance(s_.value, ast.Call) and call_name(s_.value) == 'pcfg.create_guesses' and isinstance(s_.target, ast.Name)]
    if len(acc) != 1:
        ctx.bad(rule, WL, 'count is not advanced by the value create_guesses returns', 'the running count must be the number of '
                'words actually written', None, lp)
        return
    count = acc[0].target.id
    call = acc[0].value
    # the running count starts at 0 (its only other binding)
    inits = [v for s_, v in stores_in(fn).get(count, []) if v is not None and s_ is not acc[0]]
    if len(inits) != 1 or const(inits[0]) != 0 or isinstance(const(inits[0]), bool):
        if len(inits) == 1 and isinstance(const(inits[0]), int):
            ctx.bad(rule, WL, '%s starts at %s' % (count, U(inits[0])), 'the count of words written starts at 0: --size N otherwise yields N - %s words'
                    % U(inits[0]), None, fn, firm=True)
        else:
            ctx.unk(rule, WL, 'the initial value of the word count %s is not a single constant (%s)' % (count, [U(v) for v in inits]))
        return
    cg = ctx.fn(PG + 'create_guesses')
    a = arg_for(call, cg, 'limit')
    facts = {'loop_condition': U(lp.test), 'count': count, 'limit_argument': U(a) if a is not None else None}
    if a is None:
        ctx.bad(rule, WL, 'create_guesses called without limit', 'the size bound is only compared between pre-terminals: when N '
                'falls inside a group of equally probable words all of them are written', facts, call)
        return

    def run(stmts, env):
        """-> ('call', limit) | ('stop',) | ('fall',)"""
        for st in stmts:
            if any(x is acc[0] for x in ast.walk(st)) and not isinstance(st, (ast.If, ast.Try, ast.With, ast.For, ast.While)):
                return ('call', _val(a, env))
            if isinstance(st, ast.Assign) and len(st.targets) == 1 and isinstance(st.targets[0], ast.Name):
                try:
                    env[st.targets[0].id] = _val(st.value, env)
                except _Unk:
                    env.pop(st.targets[0].id, None)
            elif isinstance(st, ast.If):
                try:
                    c = _truth(st.test, env)
                except _Unk:
                    if any(nm in U(st.test) for nm in (count, size)) or any(k in U(st.test) for k in env if k not in (count, size)):
                        raise
                    # a test about something else (queue exhausted, ...): both outcomes are possible; follow the one that
                    # goes on towards the call
                    c = any(x is acc[0] for x in ast.walk(st))
                r = run(st.body if c else st.orelse, env)
                if r[0] != 'fall':
                    return r
            elif isinstance(st, ast.Try):
                r = run(st.body, env)
                if r[0] != 'fall':
                    return r
            elif isinstance(st, (ast.Break, ast.Return)):
                return ('stop',)
            elif isinstance(st, ast.Continue):
                return ('stop',)
        return ('fall',)
    table = {}
    try:
        for name, (c_, s_) in (('written < size', (2, 5)), ('written == size', (5, 5)), ('written > size', (6, 5)), ('no size', (3, None))):
            env = {count: c_, size: s_}
            if not _truth(lp.test, env):
                table[name] = ('stop',)
            else:
                table[name] = run(lp.body, env)
    except _Unk as u:
        ctx.unk(rule, WL, 'the head of the generation loop is not understood: %s' % u, facts)
        return
    facts['iteration_table'] = {k: list(v) for k, v in table.items()}
    want = {'written < size': ('call', 3), 'written == size': ('stop',), 'written > size': ('stop',), 'no size': ('call', None)}
    if table == want:
        ctx.ok(rule, WL, 'create_guesses is reached iff written < size (or no size) and gets size - written (None without a size)', facts)
    else:
        ctx.bad(rule, WL, 'generation loop behaves as %s' % facts['iteration_table'],
                'generation must continue only while fewer than --size words were written (with written == size it must stop: one '
                'more pre-terminal would be expanded) and every call must be given the remaining budget size - written', facts, lp)


def _eval_bool(node, env):
    if isinstance(node, ast.BoolOp):
        vs = [_eval_bool(v, env) for v in node.values]
        if any(v is None for v in vs):
            return None
        return all(vs) if isinstance(node.op, ast.And) else any(vs)
    if isinstance(node, ast.UnaryOp) and isinstance(node.op, ast.Not):
        v = _eval_bool(node.operand, env)
        return None if v is None else not v
    if isinstance(node, ast.Compare) and len(node.ops) == 1:
        def val(n):
            t = U(n)
            if t in env:
                return env[t]
            c = const(n)
            return c if c is not NOCONST else 'UNK'
        a, b = val(node.left), val(node.comparators[0])
        op = node.ops[0]
        if isinstance(op, (ast.Is, ast.IsNot)):
            r = (a is b) if (a is None or b is None) else None
            if r is None:
                return None
            return r if isinstance(op, ast.Is) else not r
        if a == 'UNK' or b == 'UNK' or a is None or b is None:
            return None
        return {ast.Lt: a < b, ast.LtE: a <= b, ast.Gt: a > b, ast.GtE: a >= b, ast.Eq: a == b, ast.NotEq: a != b}.get(type(op))
    return None


def r2_output_swap(ctx, rule):
    q = PG + 'save_to_file'
    fn = ctx.fn(q)
    mod = ctx.repo.modules[PGF]
    reb = [s for s in walk_stmts(fn.body) if isinstance(s, ast.Assign) and isinstance(s.targets[0], ast.Attribute)
           and isinstance(s.value, ast.Attribute) and U(s.value.value) == 'self' and s.value.attr in ctx.resolver.class_of.get(PGF + '::PcfgGrammar', ())]
    ok = True
    if [U(s) for s in reb] != ['self.print_guess = self.write_guess_to_file']:
        ok = False
        ctx.bad(rule, q, 'rebinding %s' % [U(s) for s in reb], 'file output must replace exactly the single output point', None, fn)
    else:
        conds = [(U(t), p) for t, p in path_conditions(mod, reb[0])]
        if conds != [('self.output_filename', True)]:
            ok = False
            ctx.bad(rule, q, 'output swapped under %s' % conds, 'swap iff an output file was given', None, reb[0])
    opens = [c for c in calls_in(fn) if call_name(c) in ('codecs.open', 'open')]
    if len(opens) != 1 or const(kwarg(opens[0], 'mode', 1)) != 'w' or U(kwarg(opens[0], 'encoding', 2 if call_name(opens[0]) == 'codecs.open' else 3)) != 'self.encoding':
        ok = False
        ctx.bad(rule, q, 'output file opened as %s' % [U(o)[:80] for o in opens], "the word list is written in the ruleset's "
                "encoding, truncating the file", None, fn)
    wq = PG + 'write_guess_to_file'
    wfn = ctx.fn(wq)
    raised = {id(x) for r_ in walk_local(wfn) if isinstance(r_, ast.Raise) for x in ast.walk(r_)}
    ws = [U(c) for c in calls_in(wfn) if id(c) not in raised]       # the exception built by a raising guard writes nothing
    p = params(wfn)[1]
    if ws in (['self.output_file.write(%s)' % p, "self.output_file.write('\\n')"], ["self.output_file.write(%s + '\\n')" % p]):
        ctx.ok(rule, wq, 'the file writer writes the guess and one LF - the same line print() produces')
    else:
        ok = False
        ctx.bad(rule, wq, 'file writer %s' % ws, 'file and stdout output must be the same list: guess + newline', None, wfn)
    # emitters call the output point only through self.print_guess
    emitters = [PG + '_recursive_guesses', PG + '_honeyword_recursive_guess', PG + 'omen_generate_guesses']
    for e in emitters:
        efn = ctx.fn(e)
        direct = [c for c in calls_in(efn) if call_name(c) in ('print', 'self.write_guess_to_file', 'sys.stdout.write')
                  and not (call_name(c) == 'print' and kwarg(c, 'file') is not None)]
        if direct:
            ok = False
            ctx.bad(rule, e, 'emitter writes directly: ' + U(direct[0])[:60], 'all guesses must go through the swappable output '
                    'point, otherwise file and stdout lists differ', None, direct[0])
    # shutdown closes
    sq = PG + 'shutdown'
    if 'self.output_file.close()' not in U(ctx.fn(sq)):
        ok = False
        ctx.bad(rule, sq, 'output file not closed', 'buffered words would be lost', None, ctx.fn(sq))
    main = ctx.fn(PL)
    names = [call_name(c) for c in calls_in(main)]
    try:
        order = names.index('pcfg.save_to_file') < names.index('create_prince_wordlist') < names.index('pcfg.shutdown')
    except ValueError:
        order = False
    if not order:
        ok = False
        ctx.bad(rule, PL, 'save_to_file / create_prince_wordlist / shutdown order %s' % [n for n in names if n and 'pcfg' in n or n == 'create_prince_wordlist'],
                'the output must be selected before and closed after generation', None, main)
    if ok:
        ctx.ok(rule, q, 'save_to_file rebinds exactly print_guess to a writer of guess+LF; emitters use only the output point')


def r3_prince_folder(ctx, rule):
    main = ctx.fn(PL)
    g = [c for c in calls_in(main) if call_name(c) == 'PcfgGrammar']
    gi = ctx.fn(PG + '__init__')
    if len(g) != 1:
        ctx.unk(rule, PL, 'PcfgGrammar construction not found')
        return
    a = arg_for(g[0], gi, 'base_structure_folder')
    sk = arg_for(g[0], gi, 'skip_case')
    facts = {'base_structure_folder': U(a) if a is not None else None, 'skip_case': U(sk) if sk is not None else None}
    ok = True
    if a is None or const(a) != 'Prince':
        ok = False
        ctx.bad(rule, PL, 'base_structure_folder=%s' % facts['base_structure_folder'], "PRINCE-LING must use the 'Prince' "
                "base-structure list (every segment label as its own one-transition structure)", facts, g[0])
    if sk is None or U(sk) != "program_info['skip_case']":
        ok = False
        ctx.bad(rule, PL, 'skip_case=%s' % facts['skip_case'], 'the --all_lower option must reach the grammar', facts, g[0])
    # the parameter reaches the path of grammar.txt and the trainer writes that file
    tab = IOTable(ctx, ctx.resolver.closure(['prince_ling.py']))
    reads = set()
    for q, c, m, kind, env in tab.open_sites():
        if q.endswith('_load_base_structures'):
            reads.add(tab.file_id(q, c, env))
    facts['base_structure_files_read'] = sorted(reads)
    if ('Prince', 'grammar.txt') not in reads:
        ok = False
        ctx.bad(rule, 'lib_guesser/grammar_io.py::_load_base_structures', 'reads %s' % sorted(reads),
                'the folder parameter must select Prince/grammar.txt', facts, None)
    from . import c03
    folders, pp = c03.save_folders(ctx)
    pr = folders.get('Prince', {})
    if pr.get('named', {}).get('grammar') != '%s.count_prince' % pp:
        ok = False
        ctx.bad(rule, 'lib_trainer/save_pcfg_data.py::save_pcfg_data', 'Prince folder saved from %s' % pr, 'Prince/grammar.txt '
                'must hold the tallies of prince_evaluation', facts, None)
    if ok:
        ctx.ok(rule, PL, "grammar built with base_structure_folder='Prince'; loader reads Prince/grammar.txt; trainer writes it from count_prince", facts)


def r4_prince_tally(ctx, rule):
    """prince_evaluation tallies the label of EVERY section, once per occurrence.  Accepted spellings: the loop
    `for s in sections: counter[s[1]] += 1` (also with an unpacked target) and `counter.update(<list or generator of the labels>)`
    (directly or through a local); a set / dict of labels counts each distinct label once per password (seed C06-i) and a filter
    or early exit skips sections - both are violations; anything else is not decided."""
    fn = ctx.fn(PM)
    ps = params(fn)
    cnt, secs = ps[0], ps[1]
    stores = stores_in(fn)

    def label_of(target, elt):
        """is `elt` the label (position 1) of the section bound to `target`?"""
        if isinstance(target, ast.Name):
            return U(elt) == '%s[1]' % target.id
        if isinstance(target, (ast.Tuple, ast.List)) and len(target.elts) == 2 and isinstance(target.elts[1], ast.Name):
            return U(elt) == target.elts[1].id
        return False
    body = [s_ for s_ in fn.body if not (isinstance(s_, ast.Expr) and isinstance(s_.value, ast.Constant))]
    verdict, what = None, U(body[-1])[:80] if body else ''
    loops = [n for n in body if isinstance(n, ast.For)]
    if len(loops) == 1 and U(loops[0].iter) == secs:
        lp = loops[0]
        if any(isinstance(x, (ast.Break, ast.Continue, ast.Return, ast.If)) for x in walk_stmts(lp.body)):
            verdict, what = 'bad', 'sections skipped inside the tally loop'
        elif len(lp.body) == 1 and isinstance(lp.body[0], ast.AugAssign) and isinstance(lp.body[0].op, ast.Add) \
                and const(lp.body[0].value) == 1 and isinstance(lp.body[0].target, ast.Subscript) \
                and U(lp.body[0].target.value) == cnt and label_of(lp.target, lp.body[0].target.slice):
            verdict = 'ok'
    ups = [c for c in calls_in(fn) if isinstance(c.func, ast.Attribute) and c.func.attr == 'update' and U(c.func.value) == cnt and len(c.args) == 1]
    if verdict is None and len(ups) == 1 and len(loops) == 1 and isinstance(ups[0].args[0], ast.Name) and U(loops[0].iter) == secs:
        # the comprehension written out: labels = []; for s in sections: labels.append(s[1]); counter.update(labels)
        nm = ups[0].args[0].id
        lp = loops[0]
        inits = [v for s_, v in stores.get(nm, []) if v is not None]
        if len(stores.get(nm, [])) == 1 and len(inits) == 1 and U(inits[0]) == '[]' and len(lp.body) == 1 \
                and isinstance(lp.body[0], ast.Expr) and isinstance(lp.body[0].value, ast.Call) \
                and U(lp.body[0].value.func) == '%s.append' % nm and len(lp.body[0].value.args) == 1 \
                and label_of(lp.target, lp.body[0].value.args[0]) and body.index(lp) < body.index(next(b_ for b_ in body if ups[0] in ast.walk(b_))):
            verdict = 'ok'
    if verdict is None and len(ups) == 1 and not loops:
        arg = expand(fn, ups[0].args[0], stores)
        what = 'count_prince.update(%s)' % U(arg)[:60]
        if isinstance(arg, (ast.SetComp, ast.DictComp, ast.Set, ast.Dict)) or \
                (isinstance(arg, ast.Call) and call_name(arg) in ('set', 'frozenset', 'dict', 'dict.fromkeys')):
            verdict = 'bad'
        elif isinstance(arg, (ast.ListComp, ast.GeneratorExp)) and len(arg.generators) == 1 and U(arg.generators[0].iter) == secs:
            g = arg.generators[0]
            if g.ifs:
                verdict = 'bad'
            elif label_of(g.target, arg.elt):
                verdict = 'ok'
    if verdict == 'ok':
        ctx.ok(rule, PM, "every section's label is tallied once per occurrence")
    elif verdict == 'bad':
        ctx.bad(rule, PM, 'tally shape ' + what, 'count_prince[label] += 1 for every section: Prince/grammar.txt holds the relative '
                'frequency of each label over all sections of all passwords', None, fn)
    else:
        ctx.unk(rule, PM, 'the way prince_evaluation tallies the section labels is not recognised: ' + what)

def _loader_bundle():
    from . import c07 as _c07
    return _c07.guesser_loads_faithfully('C17.L')


def _mask_insertion(ctx, rule):
    # PRINCE words of 10+ letters get the masks of their own length (seed C17-g: only the first digit of the length survived)
    from . import c03
    return c03.r3_mask_insertion(ctx, rule)


def r13_loaded_lists_unfiltered(ctx, rule):
    """load_grammar hands back the grammar and the base-structure list exactly as the loaders filled them: each is bound once
    (to the empty container the loaders fill) and load_grammar itself neither removes nor re-binds.  The only filter the tool
    promises is --skip_brute, inside _load_base_structures where the probabilities are rescaled accordingly.  (Seed C17-i filtered
    'malformed' structures after loading: the length-less labels E and W of Prince/grammar.txt were dropped, so PRINCE-LING never
    emitted e-mail providers / hosts and every later word moved up.)"""
    from .common import _MUTATORS
    q = 'lib_guesser/grammar_io.py::load_grammar'
    fn = ctx.fn(q)
    stores = stores_in(fn)
    rets = [r for r in walk_local(fn) if isinstance(r, ast.Return) and isinstance(r.value, ast.Tuple)]
    if not ctx.floor(rule, q, len(rets), 1, 'tuple returns of load_grammar'):
        return
    names = [e.id for e in rets[0].value.elts if isinstance(e, ast.Name)]
    if len(names) != len(rets[0].value.elts):
        ctx.unk(rule, q, 'load_grammar returns expressions, not the loaded containers: %s' % U(rets[0].value)[:80])
        return
    bad = False
    for nm in names:
        sts = stores.get(nm, [])
        if len(sts) != 1:
            bad = True
            extra = sts[-1][0] if sts else fn
            ctx.bad(rule, q, '%s bound %d times in load_grammar: %s' % (nm, len(sts), U(extra)[:70]),
                    'what the loaders read from the ruleset must reach the grammar unfiltered: every structure / terminal of the files '
                    'belongs to the model (Prince/grammar.txt legitimately holds the length-less labels E and W)', None, extra)
            continue
        for x in walk_local(fn):
            if isinstance(x, ast.Call) and isinstance(x.func, ast.Attribute) and x.func.attr in _MUTATORS - {'append', 'extend', 'update', 'setdefault', 'add'} \
                    and isinstance(x.func.value, ast.Name) and x.func.value.id == nm:
                bad = True
                ctx.bad(rule, q, '%s altered after loading: %s' % (nm, U(x)[:60]), 'what the loaders read must reach the grammar unfiltered', None, x)
            if isinstance(x, ast.Delete) and any(nm in U(t) for t in x.targets):
                bad = True
                ctx.bad(rule, q, '%s altered after loading: %s' % (nm, U(x)[:60]), 'what the loaders read must reach the grammar unfiltered', None, x)
    if not bad:
        ctx.ok(rule, q, 'load_grammar returns %s, each bound once and only filled by the loaders' % names)


def _options_forwarded(ctx, rule):
    from . import c14
    return c14.r13_options_forwarded(ctx, rule)


def _encoding_verbatim(ctx, rule):
    # "the same list to a file as to standard output": the output file is opened with the ruleset's recorded encoding
    from . import c07
    return c07.r13_recorded_encoding_verbatim(ctx, rule)


def _prince_stdout(ctx, rule):
    # "the same list to a file as to standard output" and "--size N gives the first N": nothing but words reaches stdout from
    # prince_ling.py (seed C17-o: a warning printed with a bare print() when the ruleset holds fewer words than requested)
    # a message on a branch that then refuses to run at all ('--size 0') is not part of any list
    return c09.r1_single_stdout_writer(ctx, rule, entry_rel='prince_ling.py', refusals_allowed=True)


def _shared_rule(mod, name, **kw):
    def run(ctx, rule):
        import importlib
        return getattr(importlib.import_module('sa.props.' + mod), name)(ctx, rule, **kw)
    return run


def rules(tier):
    return [('C17.R1', r1_size_bound), ('C17.R2', r2_output_swap), ('C17.R3', r3_prince_folder), ('C17.R4', r4_prince_tally),
            ('C17.R6', lambda c, r: c09.r2_pairing(c, r, quals=[PG + '_recursive_guesses'], entries=('prince_ling.py',), floor=4, skip_markov=True)),
            ('C17.R7', c01.r1_heap_order), ('C17.R8', c01.r4_prob_pt_coupling), ('C17.R9', lambda c, r: c02.r1_adoption_kernel(c, r)),
            ('C17.R10', c04.r2_structural_recursion), ('C17.R11', _mask_insertion), ('C17.R12', c01.r6_loader_order), ('C17.R13', r13_loaded_lists_unfiltered), ('C17.R14', _options_forwarded), ('C17.R15', _encoding_verbatim), ('C17.R16', c01.r9_exact_float_discipline), ('C17.R17', _prince_stdout),
            # C17-cb: continue -> break in find_children: positions behind an exhausted one get no child
            ('C17.R18', _shared_rule('c02', 'r5_all_children_pushed')),
            # C09-ca idea on the PRINCE entry script
            ('C17.R19', _shared_rule('plumbing', 'no_unflushed_exit')),
            # --size / --all_lower reach the generator under their own keys
            ('C17.R20', _shared_rule('plumbing', 'option_round_trip')),
            # C17-da: the -o word list opened for appending
            ('C17.R21', _shared_rule('plumbing', 'writers_truncate')),
            # the budget threading of the emitters PRINCE-LING uses
            ('C17.R22', _shared_rule('plumbing', 'limit_exhausted_leaves')),
            # C17-ea: the initial heap is a list sorted by base_prob
            ('C17.R23', _shared_rule('c01', 'r2_heap_ownership')),
            # C17-eb: prince_ling wraps print_guess with a de-duplicating filter
            ('C17.R24', _shared_rule('plumbing', 'who_may')),
            # C17-fa: guesses counted only when print_guess returns True - write_guess_to_file (the -o writer) returns None
            ('C17.R25', _shared_rule('c04', 'r4_count_write_pairing'))] + _loader_bundle() + []


META = {
    'explanation': 'Size bound: the generation loop continues iff count < max_size and passes the remaining budget '
                   '(max_size - count) to create_guesses, whose emitters decrement/test it exactly (C09.R2 on the PRINCE '
                   'closure); save_to_file swaps exactly the single output point for a writer of guess+LF; the grammar is built '
                   "with the 'Prince' base-structure folder which the loader reads and the trainer writes from the per-section "
                   'tallies; stdout of prince_ling carries only words; order/once-only via the C01/C02 kernels.',
    'trusted_base': ['python ast', 'resolver/call graph', 'C01/C02 arguments for order and uniqueness'],
    'assumptions': ['N >= 1'],
    'not_decided': 'that a concrete list is the prefix of the unbounded list (follows from determinism + exact pairing)',
    'technique': 'budget-threading and pairing rules + bound-method rebinding (alias) rule + writer/reader path table',
}

META['explanation'] += ' ' + 'Further: loader bundle (layout, strip, encoding, completeness) for the PRINCE grammar.'

META['explanation'] += ' ' + 'Round 13: every counted word is written by whichever writer is installed (count/write pairing of C04 shared; the print_guess swallow is a recorded finding); children of the popped item are pushed in the same call.'
