"""C18 - the saved OMEN keyspace is the number of guesses a level really produces (DESIGN section 4, C18)."""
import ast
import itertools
from fractions import Fraction

from ..core import (U, walk_local, calls_in, call_name, const, NOCONST, params, stores_in, single_def, expand,
                    walk_stmts, arg_for, kwarg, path_conditions, enclosing_stmt_chain, dotted)
from ..lin import lin, Lin
from . import c06, c08, c11

KS = 'lib_trainer/omen/evaluate_password.py::calc_omen_keyspace'
REC = 'lib_trainer/omen/evaluate_password.py::_rec_calc_keyspace'
OFO = 'lib_trainer/omen/omen_file_output.py::save_omen_rules_to_disk'
MC = 'lib_guesser/omen/markov_cracker.py::MarkovCracker.'


def _ev(node, env):
    """Evaluate an integer/boolean expression over an environment of expression texts (None = unknown)."""
    t = U(node)
    if t in env:
        return env[t]
    c = const(node)
    if c is not NOCONST and isinstance(c, (int, bool)):
        return c
    if isinstance(node, ast.BinOp) and isinstance(node.op, (ast.Add, ast.Sub)):
        a, b = _ev(node.left, env), _ev(node.right, env)
        if a is None or b is None:
            return None
        return a + b if isinstance(node.op, ast.Add) else a - b
    if isinstance(node, ast.Compare):
        left = _ev(node.left, env)
        for op, r in zip(node.ops, node.comparators):
            rv = _ev(r, env)
            if left is None or rv is None:
                return None
            ok = {ast.Lt: left < rv, ast.LtE: left <= rv, ast.Gt: left > rv, ast.GtE: left >= rv, ast.Eq: left == rv,
                  ast.NotEq: left != rv}.get(type(op))
            if ok is None:
                return None
            if not ok:
                return False
            left = rv
        return True
    if isinstance(node, ast.BoolOp):
        vs = [_ev(v, env) for v in node.values]
        if any(v is None for v in vs):
            return None
        return all(vs) if isinstance(node.op, ast.And) else any(vs)
    if isinstance(node, ast.UnaryOp) and isinstance(node.op, ast.Not):
        v = _ev(node.operand, env)
        return None if v is None else not v
    return None


def r1_domain_guards(ctx, rule):
    fn = ctx.fn(KS)
    mod = ctx.repo.modules[KS.partition('::')[0]]
    tp = params(fn)[0]
    calls = [c for c in calls_in(fn) if call_name(c) == '_rec_calc_keyspace']
    if len(calls) != 1:
        ctx.unk(rule, KS, 'expected one _rec_calc_keyspace call')
        return
    call = calls[0]
    st = c08._stmt_of(mod, call)
    conds = path_conditions(mod, st)
    stores = stores_in(fn)
    facts = {'conditions': [(U(t), p) for t, p in conds]}
    # local definitions: level_minus_ip = level - ip_info['ip_level'] ; length += 1 after enumerate
    defs = {nm: lst[0][1] for nm, lst in stores.items() if len(lst) == 1 and lst[0][1] is not None}
    # enumerate(ln_lookup) with `length += 1` -> length is the real password length
    incs = [s for s in walk_stmts(fn.body) if isinstance(s, ast.AugAssign) and U(s.target) == 'length' and const(s.value) == 1]
    enum = [n for n in walk_local(fn) if isinstance(n, ast.For) and 'enumerate(%s.ln_lookup)' % tp in U(n.iter)]
    if len(incs) != 1 or len(enum) != 1 or enum[0].body[0] is not incs[0]:
        ctx.bad(rule, KS, 'length variable is not index+1 of ln_lookup', 'ln_lookup[i] is the level of length i+1', facts, fn)
        return
    wrong = []
    n = 0
    NG = 3
    for level, ip, ln, length in itertools.product(range(0, 6), range(0, 4), range(0, 4), range(1, 7)):
        env = {'level': level, "ip_info['ip_level']": ip, 'length_info[0]': ln, 'length': length, '%s.ngram' % tp: NG}
        for nm, v in defs.items():
            val = _ev(v, env)
            if val is not None:
                env[nm] = val
        reach = True
        for t, p in conds:
            if 'max_keyspace' in U(t) or U(t).startswith('keyspace['):
                continue
            v = _ev(t, env)
            if v is None:
                ctx.unk(rule, KS, 'cannot evaluate guard %s' % U(t), facts)
                return
            if v != p:
                reach = False
                break
        want = (ip + ln <= level) and (length >= NG)
        n += 1
        if reach != want:
            wrong.append({'level': level, 'ip': ip, 'ln': ln, 'length': length, 'counted': reach, 'generated_by_guesser': want})
    ctx.stats['kernel_states'] += n
    if wrong:
        ctx.bad(rule, KS, 'keyspace domain differs from the generator domain, e.g. %s' % wrong[0],
                'the guesser generates every (initial n-gram, length) pair with ip level + length level <= target level and '
                'length >= ngram; the keyspace must count exactly those (boundary lengths == ngram and zero remaining level '
                'included)', {'first_disagreements': wrong[:6], 'conditions': facts['conditions']}, st)
    else:
        ctx.ok(rule, KS, 'keyspace counts (ip, length) iff ip + ln <= level and length >= ngram (checked on %d points of the box)' % n, facts)
    # arguments: remaining level and number of transitions
    a = call.args
    lvl = lin(expand(fn, a[1], stores))
    cnt = lin(a[2])
    want_l = Lin({'level': 1, "ip_info['ip_level']": -1, 'length_info[0]': -1}, 0)
    want_c = Lin({'length': 1, '%s.ngram' % tp: -1}, 1)
    if lvl != want_l or cnt != want_c or U(a[3]) != 'ip':
        ctx.bad(rule, KS, 'recursive count called with level=%r, transitions=%r, ip=%s' % (lvl, cnt, U(a[3])),
                'remaining level = level - ip level - length level; transitions = length - ngram + 1', facts, call)
    else:
        ctx.ok(rule, KS, 'remaining level = level - ip - ln, transitions = length - ngram + 1')


def r1b_recursive_count(ctx, rule):
    fn = ctx.fn(REC)
    ps = params(fn)   # omen_trainer, level, length, ip
    base = [n for n in fn.body if isinstance(n, ast.If) and U(n.test) in ('length == 1', '1 == length')]
    if len(base) != 1:
        ctx.unk(rule, REC, 'base case not found')
        return
    b = base[0]
    t1 = [U(n.test) for n in walk_local(ast.Module(body=b.body, type_ignores=[])) if isinstance(n, ast.If)]
    t2 = [U(n.test) for n in walk_local(ast.Module(body=b.orelse, type_ignores=[])) if isinstance(n, ast.If)]
    rec = [c for s in b.orelse for c in calls_in(s) if call_name(c) == '_rec_calc_keyspace']
    facts = {'last_transition_test': t1, 'inner_test': t2, 'recursion': U(rec[0]) if rec else None}
    ok = t1 == ['letter_level[0] == level'] and t2 == ['letter_level[0] <= level'] and rec \
        and [U(a) for a in rec[0].args[1:]] == ['level - letter_level[0]', 'length - 1', 'ip[1:] + last_letter']
    if ok:
        ctx.ok(rule, REC, 'last transition must use up exactly the remaining level; inner transitions at most it; recursion on '
               '(level - l, length - 1, shifted n-gram)', facts)
    else:
        ctx.bad(rule, REC, 'recursive count shape %s' % facts, 'exact-level count', facts, fn)


def r2_probability(ctx, rule):
    fn = ctx.fn(OFO)
    stores = stores_in(fn)
    loops = [n for n in walk_local(fn) if isinstance(n, ast.For) and U(n.iter) == 'omen_keyspace.items()']
    if len(loops) != 1:
        ctx.unk(rule, OFO, 'probability loop not found')
        return
    lp = loops[0]
    st = [s for s in lp.body if isinstance(s, ast.Assign) and U(s.targets[0]).startswith('pcfg_omen_prob[')]
    if len(st) != 1:
        ctx.unk(rule, OFO, 'probability assignment not found')
        return
    local = {}
    for s in lp.body:
        if isinstance(s, ast.Assign) and isinstance(s.targets[0], ast.Name):
            local[s.targets[0].id] = s.value
    import copy

    def inl(node, d=4):
        class T(ast.NodeTransformer):
            def visit_Name(self, n):
                if isinstance(n.ctx, ast.Load) and n.id in local and d > 0:
                    return inl(local[n.id], d - 1)
                return n
        return T().visit(copy.deepcopy(node))
    e = inl(st[0].value)
    key = inl(st[0].targets[0].slice)
    facts = {'probability': U(e), 'key': U(key)}
    good = True
    for cnt, N, ksp in ((3, 10, 7), (5, 100, 13), (1, 3, 2)):
        env = {'omen_levels_count[item[0]]': Fraction(cnt), 'num_valid_passwords': Fraction(N), 'item[1]': Fraction(ksp)}
        v = c06._eval_frac(e, env)
        if v is None or v != Fraction(cnt, N) / ksp:
            good = False
    skip = any(isinstance(s, ast.If) and U(inl(s.test)) in ('item[1] == 0', 'not item[1]', 'item[1] <= 0') and isinstance(s.body[-1], ast.Continue)
               for s in lp.body)
    if good and skip and U(key) == 'item[0]':
        ctx.ok(rule, OFO, 'pcfg_omen_prob[level] = (count[level] / N) / keyspace[level]; zero keyspace skipped', facts)
    else:
        ctx.bad(rule, OFO, 'level probability = %s (key %s, zero-skip %s)' % (U(e), U(key), skip),
                'the probability of a level is the fraction of training passwords at that level divided by its keyspace', facts, st[0])
    # N is the pass-1 password count handed in by run_trainer
    rt = ctx.fn('lib_trainer/run_trainer.py::run_trainer')
    call = [c for c in calls_in(rt) if call_name(c) == 'save_omen_rules_to_disk']
    a = arg_for(call[0], fn, 'num_valid_passwords', bound=False) if call else None
    k = arg_for(call[0], fn, 'omen_keyspace', bound=False) if call else None
    lv = arg_for(call[0], fn, 'omen_levels_count', bound=False) if call else None
    if a is not None and U(a) == 'num_valid_passwords' and k is not None and U(k) == 'omen_keyspace' and lv is not None and U(lv) == 'omen_levels_count':
        ctx.ok(rule, 'lib_trainer/run_trainer.py::run_trainer', 'keyspace, per-level counts and N are passed to the writer')
    else:
        ctx.bad(rule, 'lib_trainer/run_trainer.py::run_trainer', 'save_omen_rules_to_disk arguments', 'keyspace, level counts and N', None, rt)


def r18_level_table_columns(ctx, rule):
    """The per-level tables the trainer saves (omen_keyspace.txt, omen_pws_per_level.txt, pcfg_omen_prob.txt) are `level<TAB>value`:
    in every loop of save_omen_rules_to_disk over the (level, value) pairs of a counter the line written is the first component, a
    TAB, the second component.  (Mutation sweep: `str(level[1]) + "\t" + str(level[1])` / `str(level[0]) + "\t" + str(level[0])`.)"""
    fn = ctx.fn(OFO)
    ctx.stats['functions'].add(OFO)
    n = 0
    ok = True
    for lp in [x for x in walk_local(fn) if isinstance(x, ast.For)]:
        it = U(lp.iter)
        if not ('.most_common()' in it or it.endswith('.items()')) or 'grammar' in it or 'next_letter' in it:
            continue
        if isinstance(lp.target, ast.Name):
            first, second = '%s[0]' % lp.target.id, '%s[1]' % lp.target.id
        elif isinstance(lp.target, ast.Tuple) and len(lp.target.elts) == 2 and all(isinstance(e, ast.Name) for e in lp.target.elts):
            first, second = lp.target.elts[0].id, lp.target.elts[1].id
        else:
            continue
        for c in calls_in(lp):
            if not (isinstance(c.func, ast.Attribute) and c.func.attr == 'write' and len(c.args) == 1):
                continue
            n += 1
            parts = []

            def flat(e):
                if isinstance(e, ast.BinOp) and isinstance(e.op, ast.Add):
                    flat(e.left)
                    flat(e.right)
                else:
                    parts.append(e)
            flat(c.args[0])
            cols = [U(p.args[0]) if isinstance(p, ast.Call) and call_name(p) == 'str' and len(p.args) == 1 else (const(p) if isinstance(const(p), str) else U(p))
                    for p in parts]
            data = [x for x in cols if x not in ('\t', '\n')]
            if len(data) == 2 and cols.count('\t') == 1:
                second_ok = data[1] == second or (isinstance(parts[-2] if len(parts) >= 2 else None, ast.AST) and second in U(c.args[0]) and data[1] != first and data[1] != second
                                                  and False)
                if data[0] != first or not (data[1] == second):
                    if data[0] in (first, second) and (data[1] in (first, second) or second in data[1]):
                        if data[0] == first and second in data[1]:
                            continue        # the value formatted some other way: not this rule's question
                        ok = False
                        ctx.bad(rule, OFO, 'line written as %s <TAB> %s in the loop over %s' % (data[0], data[1], it[:40]),
                                'the level comes first, its value second', None, c, firm=True)
                    else:
                        ok = False
                        ctx.unk(rule, OFO, 'line %s of the loop over %s is not of a form this rule knows' % (U(c.args[0])[:50], it[:40]))
    if ctx.floor(rule, OFO, n, 3, 'level table writes') and ok:
        ctx.ok(rule, OFO, 'the %d level tables are written as level <TAB> value' % n)


def r17_keyspace_recursion_counts(ctx, rule):
    """_rec_calc_keyspace counts strings: a cell starts at 0, gains exactly 1 per last letter whose level is the remaining level, and
    the recursive count per continuation otherwise.  (Mutation sweep: `+= 2` / a start value of 1 - every keyspace, and with it every
    level probability, was off with no error.)"""
    q = 'lib_trainer/omen/evaluate_password.py::_rec_calc_keyspace'
    fn = ctx.fn(q)
    ctx.stats['functions'].add(q)
    # the cell itself, or a local accumulator that is stored into the cell afterwards
    cells = [st for st in walk_local(fn) if isinstance(st, ast.AugAssign) and isinstance(st.op, ast.Add) and isinstance(st.target, (ast.Subscript, ast.Name))
             and ((isinstance(const(st.value), int) and not isinstance(const(st.value), bool))
                  or (isinstance(st.value, ast.Call) and call_name(st.value) == '_rec_calc_keyspace') or isinstance(st.target, ast.Subscript))]
    inits = [st for st in walk_local(fn) if isinstance(st, ast.Assign) and len(st.targets) == 1 and isinstance(st.targets[0], (ast.Subscript, ast.Name))
             and isinstance(const(st.value), int) and not isinstance(const(st.value), bool)]
    if not ctx.floor(rule, q, len(cells), 2, 'accumulations in the keyspace recursion'):
        return
    ok = True
    tgt = {U(c.target) for c in cells}
    ones = recs = 0
    for c in cells:
        v = c.value
        if isinstance(const(v), int) and not isinstance(const(v), bool):
            ones += 1
            if const(v) != 1:
                ok = False
                ctx.bad(rule, q, '%s += %s' % (U(c.target)[-40:], U(v)), 'one string per matching last letter', None, c, firm=True)
        elif isinstance(v, ast.Call) and call_name(v) == '_rec_calc_keyspace':
            recs += 1
        else:
            ok = False
            ctx.unk(rule, q, 'the keyspace cell gains %s - not a form this rule knows' % U(v)[:50])
    for st in inits:
        if U(st.targets[0]) in tgt and const(st.value) != 0:
            ok = False
            ctx.bad(rule, q, 'the keyspace cell starts at %s' % U(st.value), 'a count starts at 0', None, st, firm=True)
    if ok and ones >= 1 and recs >= 1:
        ctx.ok(rule, q, 'cells start at 0, gain 1 per complete string and the recursive count per continuation')
    elif ok:
        ctx.unk(rule, q, 'base case / recursive case of the keyspace count not both found (%d / %d)' % (ones, recs))


def r3_writers_complete(ctx, rule):
    """IP/CP/EP/LN writers emit every entry of the in-memory model the keyspace was computed on."""
    fn = ctx.fn(OFO)
    n = 0
    ok = True
    for lp in (x for x in walk_local(fn) if isinstance(x, ast.For)):
        it = U(lp.iter)
        if isinstance(lp.iter, ast.Call) and call_name(lp.iter) == 'enumerate' and lp.iter.args and U(lp.iter.args[0]) == 'omen_trainer.ln_lookup':
            it = 'enumerate(omen_trainer.ln_lookup)'        # whatever number the progress counter starts at
        elif it == 'omen_trainer.ln_lookup':
            it = 'enumerate(omen_trainer.ln_lookup)'
        if it in ('omen_trainer.grammar.items()', "data['next_letter'].items()", 'enumerate(omen_trainer.ln_lookup)'):
            n += 1
            extra = [s for s in walk_stmts(lp.body) if isinstance(s, (ast.If, ast.Continue, ast.Break))]
            if extra:
                ok = False
                ctx.bad(rule, OFO, 'writer loop over %s filters entries: %s' % (it, U(extra[0])[:60]),
                        'the keyspace is counted on the in-memory model; if the saved files omit entries (e.g. n-grams never '
                        'seen at the start of a password) the guesser generates fewer strings than the keyspace says', None, extra[0])
    if ctx.floor(rule, OFO, n, 5, 'model writer loops') and ok:
        ctx.ok(rule, OFO, 'the %d IP/EP/CP/LN writer loops emit every entry of the model' % n)


def r10_keyspace_stateless(ctx, rule):
    """The keyspace of a level is a function of the dataset it is computed on: the memo of _rec_calc_keyspace lives inside that
    dataset (omen_trainer.grammar[ip]['keyspace_cache']); a module-level cache keyed without the dataset hands the counts of one
    trained model to the next model trained in the same process (seed C18-g)."""
    from . import c14
    return c14.r8_loader_stateless(ctx, rule, rel='lib_trainer/omen/evaluate_password.py', floor=3,
                                   why='a count cached at module level is keyed by (n-gram, length, level) only: a second dataset '
                                       'trained in the same process (a test run, a script that trains several lists) re-uses the counts of '
                                       'the first, so its saved keyspace no longer equals what its own model generates')


def _cursor(ctx, rule):
    from . import c10
    return c10.r9_level_cursor_domain(ctx, rule)


def _prune(ctx, rule):
    from . import c10
    return c10.r7_prune_discipline(ctx, rule)


def _passes(ctx, rule):
    from . import c19
    return c19.r1_three_passes(ctx, rule)


def _window_slices(ctx, rule):
    # the generator yields the strings the keyspace counted only if its backtracking window is right for every n-gram size
    from . import c10
    return c10.r13_window_slices(ctx, rule)


def _omen_reader_strip(ctx, rule):
    # the generator yields the strings the keyspace counted only if it reads the n-grams the trainer wrote, trailing blanks
    # included (seed C18-j: rstrip() instead of rstrip('\n\r'))
    from . import c07
    return c07.r5_strip_discipline(ctx, rule, only=c11._OMEN_READERS, floor=4)


def r22_level_tally(ctx, rule):
    """The per-level password count is a count: in the third pass every password adds exactly one to the tally of ITS level.

    run_trainer: `level = find_omen_level(omen_trainer, password)`; `omen_levels_count[level] += 1` inside the loop over read_password()
    (which yields a password as often as it occurs).  The saved probability of a level is this count / N / keyspace: a tally by 2, a
    tally under another key or no tally changes every saved probability without touching the keyspace (mutation sweep: `+= 2`, `+= 0`
    were silent)."""
    q = 'lib_trainer/run_trainer.py::run_trainer'
    fn = ctx.fn(q)
    ctx.stats['functions'].add(q)
    n = 0
    for lp in [x for x in walk_local(fn) if isinstance(x, ast.For) and 'read_password' in U(x.iter)]:
        lv = [st for st in walk_stmts(lp.body) if isinstance(st, ast.Assign) and len(st.targets) == 1 and isinstance(st.targets[0], ast.Name)
              and isinstance(st.value, ast.Call) and call_name(st.value).endswith('find_omen_level')]
        inline = [c for c in calls_in(lp) if call_name(c).endswith('find_omen_level')]
        if not inline:
            continue
        n += 1
        level_txt = {U(st.targets[0]) for st in lv} | {U(c) for c in inline}
        pw = lp.target.id if isinstance(lp.target, ast.Name) else None
        for c in inline:
            if pw and (len(c.args) < 2 or U(c.args[1]) != pw):
                ctx.bad(rule, q, 'level looked up for %s, the loop variable is %s' % (U(c.args[1]) if len(c.args) > 1 else '?', pw),
                        'the level tallied is the level of the password just read', None, c, firm=True)
                return
        tallies = [st for st in walk_stmts(lp.body) if isinstance(st, ast.AugAssign) and isinstance(st.target, ast.Subscript)
                   and U(st.target.slice) in level_txt]
        other = [st for st in walk_stmts(lp.body) if isinstance(st, ast.AugAssign) and isinstance(st.target, ast.Subscript)
                 and 'level' in U(st.target.value) and st not in tallies]
        updates = [c for c in calls_in(lp) if isinstance(c.func, ast.Attribute) and c.func.attr == 'update' and 'level' in U(c.func.value)]
        if other:
            ctx.bad(rule, q, 'tally %s' % U(other[0])[:60], 'the tally is filed under the level find_omen_level returned for this password', None, other[0], firm=True)
            return
        if updates and not tallies:
            a = updates[0].args[0] if updates[0].args else None
            if isinstance(a, (ast.List, ast.Tuple)) and len(a.elts) == 1 and U(a.elts[0]) in level_txt:
                ctx.ok(rule, q, 'every password adds one to the tally of its level (Counter.update of a one-element list)')
                continue
            ctx.unk(rule, q, 'the level tally is a Counter.update of a form this rule does not know: ' + U(updates[0])[:60])
            return
        if len(tallies) != 1:
            if not tallies:
                ctx.bad(rule, q, 'the level found for a password is not tallied', 'the saved probability of a level is (passwords at that level) / N / keyspace',
                        None, lp, firm=True)
            else:
                ctx.unk(rule, q, '%d tallies of the level in one loop' % len(tallies))
            return
        t = tallies[0]
        if not isinstance(t.op, ast.Add) or const(t.value) != 1 or isinstance(const(t.value), bool):
            ctx.bad(rule, q, 'tally %s' % U(t)[:60], 'every password counts once', None, t, firm=True)
            return
        conds = [(U(c_), p_) for c_, p_ in path_conditions(ctx.repo.modules[q.partition('::')[0]], t, stop=lp)]
        if conds:
            ctx.unk(rule, q, 'the level tally is conditional: %s' % conds[:2])
            return
        ctx.ok(rule, q, 'every password adds one to the tally of its level (%s)' % U(t))
    ctx.floor(rule, q, n, 1, 'third-pass loops that look up the OMEN level of a password')


def _shared_rule(mod, name, **kw):
    def run(ctx, rule):
        import importlib
        return getattr(importlib.import_module('sa.props.' + mod), name)(ctx, rule, **kw)
    return run


def rules(tier):
    return [('C18.R1', r1_domain_guards), ('C18.R1b', r1b_recursive_count), ('C18.R2', r2_probability),
            ('C18.R3', r3_writers_complete), ('C18.R4', c11.r3_cp_count), ('C18.R5', c11.r5_length_domain), ('C18.R6', _passes), ('C18.R7', c11.min_length_resolution), ('C18.R8', _prune), ('C18.R9', _cursor), ('C18.R10', r10_keyspace_stateless), ('C18.R11', _window_slices), ('C18.R12', _omen_reader_strip),
            # C18-ca: the guesser reads the n-gram size under a key the trainer never writes (with a fallback)
            ('C18.R13', _shared_rule('c10', 'r20_omen_config_keys')),
            # C18-db: memo entry stored under the length instead of the target level
            ('C18.R14', _shared_rule('c10', 'r10_cache_key_agreement')),
            # C18-da: pcfg_omen_prob.txt written with format(p, '.12f')
            ('C18.R15', _shared_rule('plumbing', 'float_text_exact')),
            # mutation sweep: entries before the start index are never generated - fewer strings than the keyspace says
            ('C18.R16', _shared_rule('c10', 'r23_cursor_starts')),
            # mutation sweep: keyspace cells counted by 2 / started at 1
            ('C18.R17', _shared_rule('c18', 'r17_keyspace_recursion_counts')),
            # mutation sweep: a level table written with the same column twice
            ('C18.R18', _shared_rule('c18', 'r18_level_table_columns')),
            # C18-eb: _find_cp memoised without bottom_level
            ('C18.R19', _shared_rule('c10', 'r4_exact_last_transition')),
            # C18-ea: CP.level written without encoding=
            ('C18.R20', _shared_rule('c07', 'r2_encoding_agreement')),
            # C18-eb: _find_cp memoised under (ip, top_level)
            ('C18.R21', _shared_rule('c10', 'r25_cracker_plumbing')),
            # mutation sweep (third run): omen_levels_count[level] += 2
            ('C18.R22', r22_level_tally),
            # C18-ha: LN.level written without the trailing lengths nobody trained - the keyspace still counts them (level 10 and up)
            ('C18.R23', _shared_rule('c11', 'r2_ln_offset'))]


META = {
    'explanation': 'The set of (level, initial n-gram level, length level, length) tuples calc_omen_keyspace counts is extracted '
                   'as path conditions and compared, on a finite box, with the set the guesser generates (ip + ln <= level, '
                   'length >= ngram); arguments of the recursive count (remaining level, length - ngram + 1); exact-level '
                   'recursion shape; probability formula (count/N)/keyspace as a rational function; the model writers emit '
                   'every entry; length-domain guards agree in all components.',
    'trusted_base': ['python ast', 'evaluation of the extracted linear guards on a finite box (not of the code)'],
    'assumptions': ['the guesser enumerates a level exactly (C10, not claimed)'],
    'not_decided': 'numeric equality keyspace = count for a concrete model (needs a run of the generator)',
    'technique': 'guard extraction + finite comparison of predicates in the index domain + rational-function identity',
}

META['explanation'] += ' ' + "Further: min_length resolution; the generator's prune discipline and inclusive level-cursor domain (shared from C10); the three passes agree."
