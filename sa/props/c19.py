"""C19 - equivalent encodings of a training list train the same grammar (DESIGN section 4, C19)."""
import ast

from ..core import (U, walk_local, calls_in, call_name, const, NOCONST, params, stores_in, single_def, expand,
                    walk_stmts, arg_for, kwarg, path_conditions, enclosing_stmt_chain, dotted)
from . import c08

RT = 'lib_trainer/run_trainer.py::run_trainer'
TFI = 'lib_trainer/trainer_file_input.py::'
RP = TFI + 'TrainerFileInput.read_password'


def reader_constructions(ctx):
    fn = ctx.fn(RT)
    init = ctx.fn(TFI + 'TrainerFileInput.__init__')
    out = []
    for st in walk_stmts(fn.body):
        if isinstance(st, ast.Assign) and isinstance(st.value, ast.Call) and call_name(st.value) == 'TrainerFileInput':
            c = st.value
            args = {}
            for p in params(init)[1:]:
                a = arg_for(c, init, p)
                args[p] = U(a) if a is not None else '<default>'
            out.append((st, U(st.targets[0]), args))
    return fn, out


def r1_three_passes(ctx, rule):
    fn, cons = reader_constructions(ctx)
    main = [c for c in cons if c[2].get('filename') == "program_info['training_file']"]
    facts = {'constructions': [(v, a) for s, v, a in main]}
    if not ctx.floor(rule, RT, len(main), 3, 'TrainerFileInput constructions over the training file'):
        return
    first = main[0][2]
    diff = [(s, v, a) for s, v, a in main if a != first]
    if diff:
        for s, v, a in diff:
            ctx.bad(rule, RT, 'pass reads the training file with %s, first pass with %s' % (a, first),
                    'all training passes must see the same password sequence: same file, same encoding, same '
                    '--prefixcount setting; otherwise counts and probabilities of one pass refer to a different list', facts, s)
    else:
        ctx.ok(rule, RT, 'the %d passes construct their reader with identical arguments %s' % (len(main), first), facts)
    # each pass iterates its reader to exhaustion with read_password()
    loops = [n for n in walk_local(fn) if isinstance(n, ast.For) and isinstance(n.iter, ast.Call)
             and isinstance(n.iter.func, ast.Attribute) and n.iter.func.attr == 'read_password']
    names = {v for s, v, a in main}
    mine = [l for l in loops if U(l.iter.func.value) in names]
    early = [l for l in mine if any(isinstance(s, (ast.Break, ast.Return)) for s in walk_stmts(l.body))]
    if len(mine) < 3 or early:
        ctx.bad(rule, RT, '%d pass loops, %d with an early exit' % (len(mine), len(early)),
                'every pass must consume the whole list', facts, (early or mine or [fn])[0])
    else:
        ctx.ok(rule, RT, 'each pass consumes its reader to exhaustion')


def r2_password_count(ctx, rule):
    fn, cons = reader_constructions(ctx)
    main = [c for c in cons if c[2].get('filename') == "program_info['training_file']"]
    names = {v for s, v, a in main}
    nassign = [st for st in walk_stmts(fn.body) if isinstance(st, ast.Assign) and isinstance(st.value, ast.Attribute)
               and st.value.attr == 'num_passwords' and U(st.value.value) in names]
    if len(nassign) != 1:
        ctx.bad(rule, RT, '%d assignments from <reader>.num_passwords' % len(nassign),
                'N (the number of training passwords) must be taken once from a completed pass', None, fn)
        return
    na = nassign[0]
    nvar = U(na.targets[0])
    reader = U(na.value.value)
    # after a completed loop over that reader, before the reader name is re-bound
    loops = [n for n in walk_local(fn) if isinstance(n, ast.For) and isinstance(n.iter, ast.Call)
             and isinstance(n.iter.func, ast.Attribute) and n.iter.func.attr == 'read_password' and U(n.iter.func.value) == reader]
    before = [l for l in loops if l.end_lineno < na.lineno]
    rebinds = [s.lineno for s, v, a in main if v == reader]
    last_loop = max((l.end_lineno for l in before), default=None)
    ok = last_loop is not None and not any(last_loop < r < na.lineno for r in rebinds)
    facts = {'N': nvar, 'taken_from': U(na.value), 'line': na.lineno}
    if not ok:
        ctx.bad(rule, RT, 'N read at line %d is not the count of a completed pass' % na.lineno,
                'num_passwords must be read after the reader has been consumed and before the name is re-bound', facts, na)
        return
    # uses: coverage formula and OMEN probabilities
    uses = [n for n in walk_local(fn) if isinstance(n, ast.Name) and n.id == nvar and isinstance(n.ctx, ast.Load)]
    omen = [c for c in calls_in(fn) if call_name(c) == 'save_omen_rules_to_disk' and any(U(a) == nvar for a in c.args)]
    cov = [st for st in walk_stmts(fn.body) if isinstance(st, ast.Assign) and nvar in U(st.value) and 'coverage' in U(st.value)]
    if omen and cov:
        ctx.ok(rule, RT, 'N = %s feeds the coverage pseudo-count and the OMEN level probabilities' % U(na.value), facts)
    else:
        ctx.bad(rule, RT, 'N is not used for coverage / OMEN probabilities', 'both must be computed with the password count', facts, na)


ALLOWED_N = ("int(clean_password.lstrip().split(' ')[0])", '1')


def r3_multiplicity_and_r6_strip(ctx, rule):
    fn = ctx.fn(RP)
    mod = ctx.repo.modules[RP.partition('::')[0]]
    yields = [n for n in walk_local(fn) if isinstance(n, ast.Yield)]
    if len(yields) != 1:
        ctx.unk(rule, RP, 'expected one yield')
        return
    y = yields[0]
    yv = U(y.value)
    ystmt = c08._stmt_of(mod, y)
    par = mod.parents.get(id(ystmt))
    facts = {}
    ok = True
    # yield n times
    nvar = None
    if isinstance(par, ast.For) and isinstance(par.iter, ast.Call) and call_name(par.iter) == 'range':
        a = par.iter.args
        if len(a) == 1:
            nvar = U(a[0])
        elif len(a) == 2 and const(a[0]) == 0:
            nvar = U(a[1])
    facts['yield_loop'] = U(par.iter) if isinstance(par, ast.For) else None
    if nvar is None:
        ok = False
        ctx.bad(rule, RP, 'password yielded outside `for _ in range(n)`', 'a line with count prefix n must be yielded n times', facts, ystmt)
        return
    incs = [s for s in walk_stmts(fn.body) if isinstance(s, ast.AugAssign) and U(s.target) == 'self.num_passwords']
    facts['count_update'] = [U(s) for s in incs]
    if len(incs) != 1 or not isinstance(incs[0].op, ast.Add) or U(incs[0].value) != nvar:
        ok = False
        ctx.bad(rule, RP, 'num_passwords updated by %s, yields %s times' % (facts['count_update'], nvar),
                'the password count N must grow by exactly the number of times the password is yielded', facts, (incs or [ystmt])[0])
    # counted == yielded on every path: once N has grown, nothing may skip the line any more (seed C06-fb moved the count and the
    # validity test above the re-encode check: an undecodable line is counted, then skipped - N, and with it the Markov pseudo-count
    # and every probability in grammar.txt, is too large)
    if len(incs) == 1:
        inc = incs[0]
        ipar = mod.parents.get(id(inc))
        block = next((b for f in ('body', 'orelse', 'finalbody') for b in [getattr(ipar, f, None)] if isinstance(b, list) and inc in b), None)
        if block is None or par not in block or block.index(par) < block.index(inc):
            ok = False
            ctx.unk(rule, RP, 'the count update and the yield loop are not statements of one block, count first - not a form this rule follows')
        else:
            for st in block[block.index(inc) + 1:block.index(par)]:
                for x in ast.walk(st):
                    if isinstance(x, (ast.Continue, ast.Return, ast.Raise, ast.Break)):
                        ok = False
                        ctx.bad(rule, RP, '%s between `%s` and the yield' % (type(x).__name__.lower(), U(inc)),
                                'a line that has been counted must be yielded: every test that can skip the line comes before the count, '
                                'or N (the denominator of every probability and the base of the Markov pseudo-count) exceeds the number '
                                'of passwords parsed', facts, x, firm=True)
    stores = stores_in(fn)
    ndefs = [U(v) if v is not None else '<%s>' % type(s).__name__ for s, v in stores.get(nvar, [])]
    facts['n_definitions'] = ndefs
    if sorted(ndefs) != sorted(ALLOWED_N):
        ok = False
        ctx.bad(rule, RP, 'multiplicity n defined as %s' % ndefs, "n is the count prefix (first blank-separated field after "
                "leading blanks) in --prefixcount mode and 1 otherwise", facts, ystmt)
    # transformations of the yielded value
    line_vars = set()
    for nm, lst in stores.items():
        if any(v is not None and isinstance(v, ast.Call) and isinstance(v.func, ast.Attribute) and v.func.attr == 'readline' for s, v in lst):
            line_vars.add(nm)
    allowed = []
    for s, v in stores.get(yv, []):
        txt = U(v) if v is not None else None
        conds = [(U(t), p) for t, p in path_conditions(mod, s)]
        kind = None
        if v is not None and isinstance(v, ast.Call) and isinstance(v.func, ast.Attribute) and v.func.attr == 'rstrip' \
                and U(v.func.value) in line_vars and v.args and isinstance(const(v.args[0]), str) and set(const(v.args[0])) <= set('\r\n'):
            kind = 'eol'
        elif txt in ("' '.join(%s.lstrip().split(' ')[1:])" % yv, "%s.lstrip().partition(' ')[2]" % yv,
                     "%s.lstrip().split(' ', 1)[1]" % yv if False else "' '.join(%s.lstrip().split(' ')[1:])" % yv) \
                and any('prefixcount' in c for c, p in conds if p):
            # everything behind the first blank: join(split(' ')[1:]) and partition(' ')[2] are the same string for every input
            # (split(' ', 1)[1] is NOT: it raises for a line without a blank)
            kind = 'prefix'
        elif txt == "bytes.fromhex(%s[5:-1]).decode(self.encoding)" % yv and \
                any("startswith('$HEX[')" in c and "endswith(']')" in c for c, p in conds if p):
            kind = 'hex'
        allowed.append((txt, kind, s))
    facts['value_definitions'] = [(t, k) for t, k, s in allowed]
    for t, k, s in allowed:
        if k is None:
            ok = False
            ctx.bad(rule, RP, 'password transformed by ' + (t or U(s)[:80]),
                    "the only admissible rewrites of the line are: rstrip of CR/LF, removal of the count prefix "
                    "(' '.join(x.lstrip().split(' ')[1:]) - which keeps leading, inner and trailing blanks of the "
                    "password) and $HEX[] decoding with the file encoding; anything else (strip(), split(None, 1), "
                    "lower(), ...) makes plain, hex and count-prefixed spellings of one list train different grammars",
                    facts, s)
    kinds = sorted(k for t, k, s in allowed if k)
    if kinds != ['eol', 'hex', 'prefix']:
        ok = False
        ctx.bad(rule, RP, 'rewrites present: %s' % kinds, 'CR/LF removal, count-prefix removal and $HEX[] decoding must all be there',
                facts, fn)
    if ok:
        ctx.ok(rule, RP, 'yield n times, num_passwords += n, n = prefix or 1; line rewrites limited to CR/LF strip, prefix '
               'removal, $HEX[] decode with the reader encoding', facts)


def r4_skip_paths(ctx, rule):
    fn = ctx.fn(RP)
    mod = ctx.repo.modules[RP.partition('::')[0]]
    loops = [n for n in walk_local(fn) if isinstance(n, ast.While)]
    # the read loop is the outermost one; a loop inside it that only gathers the pieces of ONE physical line (the codecs reader
    # cuts a line at more characters than CR / LF) belongs to reading that line
    nested = {id(x) for l in loops for b in l.body for x in ast.walk(b) if isinstance(x, ast.While)}
    loops = [l for l in loops if id(l) not in nested]
    if len(loops) != 1:
        ctx.unk(rule, RP, 'read loop not found')
        return
    lp = loops[0]
    inner_breaks = {id(x) for b in lp.body for l2 in ast.walk(b) if isinstance(l2, (ast.While, ast.For)) for z in l2.body for x in ast.walk(z)
                    if isinstance(x, ast.Break)}
    bad = False
    n = 0
    for st in walk_stmts(lp.body):
        if id(st) in inner_breaks:
            continue
        if isinstance(st, (ast.Return, ast.Break, ast.Raise)):
            n += 1
            conds = [(U(t), p) for t, p in path_conditions(mod, st, stop=lp)]
            eof = any(c in ("password == ''", "not password", "password == \"\"", "len(password) == 0") and p for c, p in conds)
            if not eof:
                bad = True
                ctx.bad(rule, RP, '%s inside the read loop under %s' % (U(st)[:40], conds),
                        'a bad line must be skipped and counted (continue), never abort or end the pass early', None, st)
    # calls that may raise on bad input sit in handlers that continue
    risky = [('int', 'ValueError'), ('bytes.fromhex', None), ('decode', None), ('encode', 'UnicodeEncodeError'), ('readline', 'UnicodeError')]
    for c in calls_in(lp):
        d = call_name(c) or ''
        m = c.func.attr if isinstance(c.func, ast.Attribute) else d
        for nm, exc in risky:
            if d == nm or m == nm:
                n += 1
                tries = [a for a in enclosing_stmt_chain(mod, c) if isinstance(a, ast.Try)]
                inner = None
                for t in tries:
                    if any(c in ast.walk(s) for s in t.body):
                        inner = t
                        break
                handled = False
                if inner is not None:
                    for h in inner.handlers:
                        if h.body and isinstance(h.body[-1], ast.Continue):
                            if h.type is None or exc is None or exc in U(h.type) or U(h.type) in ('Exception', 'UnicodeError'):
                                handled = True
                if not handled:
                    bad = True
                    ctx.bad(rule, RP, '%s may raise outside a handler that continues' % U(c)[:60],
                            'an undecodable or malformed line aborts training instead of being skipped', None, c)
    if ctx.floor(rule, RP, n, 5, 'exit statements / raising calls in the read loop') and not bad:
        ctx.ok(rule, RP, 'the only exit of the read loop is EOF; int(), fromhex/decode, encode and readline errors are '
               'handled by `continue`')


def r5_reader_encoding_and_eol(ctx, rule):
    """The reader decodes the file and the $HEX[] payloads with exactly the encoding it was given; every removal of line
    terminators treats CR and LF alike (also in the encoding autodetection, which must see the same hex payloads)."""
    iq = TFI + 'TrainerFileInput.__init__'
    ifn = ctx.fn(iq)
    encp = 'encoding'
    assigns = [s for s in walk_stmts(ifn.body) if isinstance(s, ast.Assign) and U(s.targets[0]) == 'self.encoding']
    opens = [c for c in calls_in(ifn) if call_name(c) in ('codecs.open', 'open')]
    facts = {'assignments': [U(a) for a in assigns], 'open': [U(o)[:100] for o in opens]}
    rebound = [U(s_) for s_, v_ in stores_in(ifn).get(encp, [])]
    facts['parameter_rebound'] = rebound
    ok = not rebound and len(assigns) == 1 and U(assigns[0].value) == encp and len(opens) == 1 \
        and U(kwarg(opens[0], 'encoding', 2 if call_name(opens[0]) == 'codecs.open' else 3)) in ('self.encoding', encp)
    if ok:
        ctx.ok(rule, iq, 'the file is opened with, and self.encoding is, exactly the encoding parameter', facts)
    else:
        ctx.bad(rule, iq, 'reader encoding %s / open %s' % (facts['assignments'], facts['open']),
                'the reader must decode the file and the $HEX[] payloads with exactly the encoding it was given; a remapped '
                'codec (e.g. utf-8-sig) treats the same bytes differently in a streamed line and in a one-shot hex decode, so '
                'plain and hex spellings of one password diverge', facts, ifn)
    n = 0
    for q in (TFI + 'detect_file_encoding', RP):
        fn = ctx.fn(q)
        for c in calls_in(fn):
            if isinstance(c.func, ast.Attribute) and c.func.attr in ('rstrip', 'strip') and c.args:
                a = c.args[0]
                v = const(a)
                if v is NOCONST and isinstance(a, ast.Call) and call_name(a) == 'bytes' and a.args:
                    v = const(a.args[0])
                if isinstance(v, (str, bytes)):
                    chars = set(v.decode('latin-1') if isinstance(v, bytes) else v)
                    if chars & {'\r', '\n'}:
                        n += 1
                        if not {'\r', '\n'} <= chars:
                            ctx.bad(rule, q, 'line terminator strip %s' % U(c)[:60],
                                    'CRLF and LF lists must be read alike: a strip that removes only one of CR/LF leaves the '
                                    'other on the line (a $HEX[...] line is then no longer recognised, or a CR becomes part of '
                                    'the password)', None, c)
                        else:
                            ctx.ok(rule, q, '%s removes CR and LF' % U(c)[:40])
    ctx.floor(rule, RP, n, 1, 'line-terminator strips in the trainer input path')


def _validated(ctx, rule):
    from . import c07
    return c07.r1b_validate_final_value(ctx, rule)


def r7_autodetect(ctx, rule):
    """Without --encoding the encoding is always taken from detect_file_encoding (which decodes $HEX[] payloads first)."""
    q = 'trainer.py::main'
    fn = ctx.fn(q)
    mod = ctx.repo.modules['trainer.py']
    calls = [c for c in calls_in(fn) if call_name(c) == 'detect_file_encoding']
    sets = [s for s in walk_stmts(fn.body) if isinstance(s, ast.Assign) and U(s.targets[0]) == "program_info['encoding']"]
    facts = {'assignments': [U(s) for s in sets]}
    if len(calls) != 1:
        ctx.bad(rule, q, '%d calls of detect_file_encoding' % len(calls), 'the encoding of a list given without --encoding must be '
                'detected on the decoded content ($HEX[] payloads included)', facts, fn)
        return
    cst = c08._stmt_of(mod, calls[0])
    conds = [(U(t), p) for t, p in path_conditions(mod, cst) if 'parse_command_line' not in U(t)]
    facts['detect_conditions'] = conds
    want = [("program_info['encoding'] is None", True)]
    ok = conds == want or conds == [("program_info['encoding']", False)]
    # the chosen encoding is the detector's first candidate
    lst = U(calls[0].args[1]) if len(calls[0].args) > 1 else None
    appended = [c for c in calls_in(fn) if isinstance(c.func, ast.Attribute) and c.func.attr in ('append', 'insert', 'extend') and U(c.func.value) == lst]
    if appended:
        ok = False
    if len(sets) != 1 or U(sets[0].value) != '%s[0]' % lst:
        ok = False
    if ok:
        ctx.ok(rule, q, 'encoding = first candidate of detect_file_encoding whenever --encoding is not given', facts)
    else:
        ctx.bad(rule, q, 'autodetection bypassed or overridden: conditions %s, assignments %s' % (conds, facts['assignments']),
                'a list whose non-ASCII passwords are all written as $HEX[...] is 7-bit clean; only the detector (which decodes '
                'the payloads) can find its encoding, so a shortcut around it reads the hex form with another encoding than '
                'the plain form', facts, cst)


def _separators(ctx, rule):
    # "lines containing tabs or control characters are skipped ... without leaking into the ruleset" - seed C19-g
    from . import c07
    return c07.r1_separator_inclusion(ctx, rule)


def r15_physical_lines(ctx, rule):
    """One line of the training file is one record.  A reader opened with codecs.open ends readline() at every character
    str.splitlines knows (A4: LF, CR, VT, FF, FS, GS, RS, NEL, U+2028, U+2029); only CR / LF are line ends of a password list, the
    others are characters of a (to be rejected) password.  So either the file is opened with the builtin open (which splits at CR /
    LF only), or the pieces readline() returns are joined until one ends in CR / LF.  Without that a plain line `ab<FF>cd` is cut in
    two and `cd` is trained, while its $HEX[] spelling is rejected as a whole - the defect repaired by 1925658."""
    iq = TFI + 'TrainerFileInput.__init__'
    ifn = ctx.fn(iq)
    fn = ctx.fn(RP)
    opens = [c for c in calls_in(ifn) if call_name(c) in ('codecs.open', 'open', 'io.open')]
    if len(opens) != 1:
        ctx.unk(rule, iq, 'expected one open call in the reader (found %d)' % len(opens))
        return
    if call_name(opens[0]) != 'codecs.open':
        nl = kwarg(opens[0], 'newline', 6)
        if nl is None or const(nl) in ('', '\n', None):
            ctx.ok(rule, iq, 'builtin text reader: lines end at CR / LF only')
        else:
            ctx.unk(rule, iq, 'reader opened with newline=%s' % U(nl))
        return
    reads = [c for c in calls_in(fn) if isinstance(c.func, ast.Attribute) and c.func.attr == 'readline']
    joined = False
    for lp in [x for x in walk_local(fn) if isinstance(x, ast.While)]:
        t = U(lp.test)
        gathers = any(isinstance(st, ast.AugAssign) and isinstance(st.op, ast.Add) and isinstance(st.target, ast.Name)
                      and isinstance(st.value, ast.Name) for st in walk_stmts(lp.body))
        reads_in = any(isinstance(c.func, ast.Attribute) and c.func.attr == 'readline' for c in calls_in(lp))
        ends = ("not in '\\r\\n'" in t or "not in '\\n\\r'" in t or "endswith" in t)
        if gathers and reads_in and ends:
            joined = True
    if joined:
        ctx.ok(rule, RP, 'codecs reader, pieces joined until one ends in CR / LF: one physical line is one record', {'readline_calls': len(reads)})
    else:
        ctx.bad(rule, RP, 'codecs readline() used as the record boundary', 'the codecs reader also cuts at FF, FS, GS, RS, VT, NEL, U+2028 and '
                'U+2029: a plain password containing one of them is split and its tail is trained as a password of its own; the $HEX[] '
                'spelling of the same password is rejected as a whole', None, reads[0] if reads else fn, firm=True)


def r14_counters_use_the_multiplicity(ctx, rule):
    """A collapsed line `n password` stands for n lines: once the multiplicity is known, whatever the reader counts for that line -
    a password accepted, an encoding error - it counts n times.  (Seed C19-db: the $HEX[] failure branch counted 1: config.ini of
    the collapsed list records fewer encoding errors than that of the plain list.)"""
    from ..cfg import CFG
    fn = ctx.fn(RP)
    mod = ctx.repo.modules[RP.partition('::')[0]]
    ctx.stats['functions'].add(RP)
    stores = stores_in(fn)
    mult = [nm for nm, lst in stores.items() if any(v is not None and const(v) == 1 for s_, v in lst)
            and any(v is not None and isinstance(v, ast.Call) and call_name(v) == 'int' for s_, v in lst)]
    if len(mult) != 1:
        ctx.unk(rule, RP, 'the multiplicity variable of read_password is not identifiable (%s)' % mult)
        return
    n = mult[0]
    cfg = CFG(fn)
    defs = [cfg.node_of(s_) for s_, v in stores[n] if cfg.node_of(s_) is not None]
    incs = [st for st in walk_local(fn) if isinstance(st, ast.AugAssign) and isinstance(st.op, ast.Add)
            and isinstance(st.target, ast.Attribute) and U(st.target.value) == 'self' and st.target.attr.startswith('num_')]
    ok = True
    k = 0
    for st in incs:
        node = cfg.node_of(st)
        if node is None:
            continue
        # is the multiplicity defined on every path to this increment?  (the readline failure counts before the line is even split)
        after = all(any(node in cfg.reachable(d) for d in defs) for _ in (0,)) and cfg.every_path_passes(cfg.entry, node, set(defs))
        if not after:
            continue
        k += 1
        if U(st.value) != n:
            ok = False
            ctx.bad(rule, RP, '%s += %s where the multiplicity %s of the line is known' % (U(st.target), U(st.value), n),
                    'with --prefixcount a line stands for n lines: its encoding error / its password is counted n times, as the plain '
                    'repeated lines would be', None, st, firm=True)
    if ctx.floor(rule, RP, k, 3, 'counter increments behind the multiplicity') and ok:
        ctx.ok(rule, RP, 'the %d counter increments behind the definition of %s all add %s' % (k, n, n))


def r12_control_characters_rejected(ctx, rule):
    """'lines containing tabs or control characters ... are skipped': the set of characters check_valid rejects (C07's reject-set
    extraction: constant membership guards, range loops over chr(i), any()/isdisjoint forms) contains every C0 control character
    U+0000..U+001F (seed C19-cb: range(0x00, 0x1f) lets U+001F through - it reaches Other/1.txt, the grammar and the OMEN tables)."""
    from . import c07
    qual = c07.TFI + 'check_valid'
    fn = ctx.fn(qual)
    fn._module_tree = ctx.repo.modules[qual.partition('::')[0]].tree
    rej, unknown = c07.reject_set(fn)
    need = {chr(i) for i in range(0x20)}
    missing = sorted(need - rej)
    facts = {'rejected': sorted('U+%04X' % ord(c) for c in rej if len(c) == 1), 'unrecognised_guards': unknown}
    if missing and any(not u_.startswith('early accept') for u_ in unknown):
        ctx.unk(rule, qual, 'check_valid has guards that are not understood (%s); cannot tell whether %s are rejected'
                % (unknown[:3], ['U+%04X' % ord(c) for c in missing][:6]), facts)
    elif missing:
        ctx.bad(rule, qual, 'accepts ' + ', '.join('U+%04X' % ord(c) for c in missing[:8]),
                'a training line that contains a control character is skipped and counted, never trained on', facts, fn, firm=True)
    else:
        ctx.ok(rule, qual, 'check_valid rejects all 32 C0 control characters', facts)


def r9_side_lists_are_plain(ctx, rule):
    """--prefixcount describes the TRAINING list.  The other list run_trainer reads (the --multiword pre-training words, one
    word per line) is read as plain lines whatever the flag says: read as count-prefixed, every line fails int() and is skipped
    silently, so the plain and the collapsed form of the same training list no longer train the same ruleset (seed C19-o)."""
    fn, cons = reader_constructions(ctx)
    init = ctx.fn(TFI + 'TrainerFileInput.__init__')
    ps = params(init)
    flag = [p for p in ps if 'prefix' in p.lower()]
    if len(flag) != 1:
        ctx.unk(rule, TFI + 'TrainerFileInput.__init__', 'the count-prefix parameter of the reader is not identifiable (%s)' % ps)
        return
    flag = flag[0]
    dflt = None
    a = init.args
    pos = a.posonlyargs + a.args
    if flag in [x.arg for x in pos]:
        i = [x.arg for x in pos].index(flag) - (len(pos) - len(a.defaults))
        dflt = a.defaults[i] if i >= 0 else None
    side = [c for c in cons if c[2].get('filename') != "program_info['training_file']"]
    ok = True
    for st, v, args in side:
        val = args.get(flag)
        if val == '<default>':
            if dflt is None or const(dflt) is not False:
                ok = False
                ctx.bad(rule, TFI + 'TrainerFileInput.__init__', 'default of %s is %s' % (flag, U(dflt) if dflt is not None else None),
                        'a reader built without the flag reads plain lines', None, init)
        elif val == 'False':
            pass
        elif 'prefixcount' in val:
            ok = False
            ctx.bad(rule, RT, '%s = TrainerFileInput(%s): %s=%s' % (v, args.get('filename'), flag, val),
                    'the word list given with --multiword is a plain list; read as count-prefixed its lines are skipped silently and the '
                    'pre-training disappears exactly in the --prefixcount run', {'args': args}, st, firm=True)
        else:
            ok = False
            ctx.unk(rule, RT, 'reader over %s built with %s=%s' % (args.get('filename'), flag, val))
    if ok:
        ctx.ok(rule, RT, '%d reader(s) over other lists than the training list, all plain (%s left at False)' % (len(side), flag))


def _shared_rule(mod, name, **kw):
    def run(ctx, rule):
        import importlib
        return getattr(importlib.import_module('sa.props.' + mod), name)(ctx, rule, **kw)
    return run


def rules(tier):
    return [('C19.R1', r1_three_passes), ('C19.R2', r2_password_count), ('C19.R3', r3_multiplicity_and_r6_strip),
            ('C19.R4', r4_skip_paths), ('C19.R5', r5_reader_encoding_and_eol),
            ('C19.R6', _validated), ('C19.R7', r7_autodetect), ('C19.R8', _separators), ('C19.R9', r9_side_lists_are_plain), ('C19.R12', r12_control_characters_rejected), ('C19.R14', r14_counters_use_the_multiplicity), ('C19.R15', r15_physical_lines),
            # --prefixcount / --encoding reach the readers under their own keys
            ('C19.R10', _shared_rule('plumbing', 'option_round_trip')),
            # C19-ca: getattr(file_input, 'num_encoding_error', 0): the counter of skipped lines is always recorded as 0
            ('C19.R11', _shared_rule('plumbing', 'defaulted_getattr')),
            # C19-da: the training reader opened with errors='replace' - undecodable lines are trained on as U+FFFD and not counted
            ('C19.R13', _shared_rule('plumbing', 'decode_error_policy')),
            # C19-eb: the first password of pass 1 consumed by a preview
            ('C19.R16', _shared_rule('plumbing', 'who_may'))]


META = {
    'explanation': 'Sibling agreement of the three training passes (identical TrainerFileInput arguments, each consumed to '
                   'exhaustion); N taken from a completed pass and used for coverage and OMEN probabilities; read_password: '
                   'yield multiplicity = count update = prefix-or-1; the only rewrites of the line are CR/LF rstrip, count-prefix '
                   'removal (blank-preserving idiom) and $HEX[] decode with the reader encoding; every rejecting path continues, '
                   'every raising call is in a handler that continues.',
    'trusted_base': ['python ast', 'syntactic path conditions'],
    'assumptions': ['check_valid filtering is C07.R1'],
    'not_decided': 'metamorphic equality of whole rulesets (a run)',
    'technique': 'sibling-argument comparison + def-use transformer whitelist on the line-to-yield data flow + exit/handler discipline',
}

META['explanation'] += ' ' + 'Further: the reader validates the final value; without --encoding the encoding always comes from detect_file_encoding.'
