"""C20 - edit_rules only removes base structures, and only those that fail the filter (DESIGN section 4, C20)."""
import ast
import itertools
import re

from ..core import (TU, U, walk_local, calls_in, call_name, const, NOCONST, params, stores_in, single_def, expand,
                    walk_stmts, arg_for, kwarg, path_conditions, enclosing_stmt_chain, dotted)
from ..order import Terms, outcomes, eval_cond, LT, EQ, GT, Hooks
from ..effects import fs_mutation
from . import c03, c08

ER = 'edit_rules.py::'


def r1_effect_set(ctx, rule):
    cg = ctx.cg
    closure = ctx.resolver.closure(['edit_rules.py'])
    ctx.fn(ER + 'main')
    par = cg.reach([ER + 'main', 'edit_rules.py::<module>'], closure)
    muts = []
    for q in sorted(par):
        if q.endswith('<module>'):
            continue
        fn = ctx.repo.fn(q)
        ctx.stats['functions'].add(q)
        for c in calls_in(fn):
            m = fs_mutation(c)
            if m:
                muts.append((q, m, c))
    ok = True
    seen_open = seen_copy = 0
    for q, m, c in muts:
        d = call_name(c)
        if d == 'shutil.copytree' and q == ER + '_create_copy':
            seen_copy += 1
            extra = [k.arg for k in c.keywords if k.arg not in ('symlinks', 'dirs_exist_ok')]
            if extra or len(c.args) != 2:
                ok = False
                ctx.bad(rule, q, 'copytree with %s' % (extra or 'extra arguments'),
                        'the copy must be an independent deep copy of the ruleset: a custom copy function (hard links, '
                        'symlinks) makes the later rewrite of Grammar/grammar.txt change the source ruleset too', None, c)
            continue
        if d == 'open' and q == ER + 'edit_rules':
            seen_open += 1
            fn = ctx.repo.fn(q)
            stores = stores_in(fn)
            tgt = expand(fn, c.args[0], stores)
            t = U(tgt)
            if not (t.startswith('os.path.join(') and t.endswith("'Grammar', 'grammar.txt')") and "config.get('rule')" in t):
                ok = False
                ctx.bad(rule, q, 'writes ' + t[:80], "the only file edit_rules may write is <rule>/Grammar/grammar.txt", None, c)
            continue
        ok = False
        ctx.bad(rule, q, 'file-system mutation ' + m[:80], 'edit_rules may only copy the ruleset (with --copy) and rewrite '
                'Grammar/grammar.txt of the selected ruleset; no other file may be touched (path: %s)' % ' -> '.join(cg.path_to(par, q)),
                None, c)
    if seen_open != 1:
        ok = False
        ctx.bad(rule, ER + 'edit_rules', '%d writes of the grammar file' % seen_open, 'exactly one write-back expected', None, None)
    # --copy: the write target is under the copy
    fn = ctx.fn(ER + 'edit_rules')
    mod = ctx.repo.modules['edit_rules.py']
    # evaluated through the callee: what copytree receives and what config['rule'] becomes, in the caller's terms
    import copy as _cp
    cfn = ctx.fn(ER + '_create_copy')

    def through(call, expr):
        """callee expression `expr` with the callee's single-definition locals expanded and its parameters replaced by the arguments"""
        ps_ = params(cfn)
        amap = {}
        for i_, a_ in enumerate(call.args):
            if i_ < len(ps_):
                amap[ps_[i_]] = a_
        for k_ in call.keywords:
            if k_.arg:
                amap[k_.arg] = k_.value
        e_ = expand(cfn, expr, stores_in(cfn), depth=4)

        class T(ast.NodeTransformer):
            def visit_Name(self, n_):
                if isinstance(n_.ctx, ast.Load) and n_.id in amap:
                    return _cp.deepcopy(amap[n_.id])
                return n_
        return T().visit(_cp.deepcopy(e_))
    sw = [s for s in walk_stmts(fn.body) if isinstance(s, ast.Assign) and U(s.targets[0]) == "config['rule']"]
    gf = [s for s in walk_stmts(fn.body) if isinstance(s, ast.Assign) and U(s.targets[0]) == 'grammar_file']
    cc = [c for c in calls_in(fn) if call_name(c) == '_create_copy']
    trees = [c for c in calls_in(cfn) if call_name(c) == 'shutil.copytree' and len(c.args) >= 2]
    good = False
    undecided = None
    if len(sw) == 1 and len(gf) == 1 and len(cc) == 1 and len(trees) == 1:
        conds = [(U(t), p) for t, p in path_conditions(mod, sw[0])]
        src = U(through(cc[0], trees[0].args[0])).replace("config['rules_dir']", "config.get('rules_dir')")
        dst = U(through(cc[0], trees[0].args[1])).replace("config['rules_dir']", "config.get('rules_dir')")
        val = sw[0].value
        if isinstance(val, ast.Call) and call_name(val) == '_create_copy':
            rets_ = [r for r in walk_local(cfn) if isinstance(r, ast.Return) and r.value is not None]
            val = through(cc[0], rets_[0].value) if len(rets_) == 1 else None
        switched = val is not None and U(val) in ("config['copy']", "config.get('copy')")
        want_src = "os.path.join(config.get('rules_dir'), config.get('rule'))"
        want_dst = "os.path.join(config.get('rules_dir'), config.get('copy'))"
        simple = all(isinstance(x, (ast.Call, ast.Attribute, ast.Name, ast.Constant, ast.Load, ast.Subscript)) for e_ in (src, dst)
                     for x in ast.walk(ast.parse(e_, mode='eval').body))
        good = conds == [("config.get('copy')", True)] and sw[0].lineno < gf[0].lineno and cc[0].lineno <= sw[0].lineno \
            and src == want_src and dst == want_dst and switched
        if not good and not simple:
            undecided = 'copy source / target not understood: %s -> %s' % (src[:60], dst[:60])
    elif len(trees) != 1 or len(cc) != 1:
        undecided = 'the --copy step is not recognised (%d _create_copy calls, %d copytree calls in it)' % (len(cc), len(trees))
    if undecided:
        ok = False
        ctx.unk(rule, ER + 'edit_rules', undecided)
        good = None
    if good:
        ctx.ok(rule, ER + 'edit_rules', 'with --copy the ruleset is copied first and all later paths use the copy')
    elif good is None:
        pass
    else:
        ok = False
        ctx.bad(rule, ER + 'edit_rules', '--copy handling', 'copy <rule> to <copy>, then switch config[rule] to the copy before the '
                'grammar path is computed; the source must stay untouched', None, fn)
    if ok:
        ctx.ok(rule, ER + 'main', 'file-system effects reachable from main: copytree(rule -> copy) and open(<rule>/Grammar/grammar.txt, w)',
               {'mutations': [(q, m) for q, m, c in muts]})


def regex_accepts_all_labels(pattern):
    """Static look at the regex AST: one upper-case letter class followed by an unbounded run of digits."""
    try:
        import re._parser as sp
        from re._constants import MAXREPEAT, IN, RANGE, LITERAL, MAX_REPEAT, CATEGORY
    except ImportError:      # python < 3.11
        import sre_parse as sp
        from sre_constants import MAXREPEAT, IN, RANGE, LITERAL, MAX_REPEAT, CATEGORY
    try:
        tree = list(sp.parse(pattern))
    except Exception as e:
        return False, 'unparsable: %s' % e
    if len(tree) != 2:
        return False, 'not <letter><digits>'
    (op1, av1), (op2, av2) = tree
    letters = set()
    if str(op1) == 'IN':
        for k, v in av1:
            if str(k) == 'RANGE':
                letters.update(chr(c) for c in range(v[0], v[1] + 1))
            elif str(k) == 'LITERAL':
                letters.add(chr(v))
    missing = set('ADOKYXM') - letters
    if missing:
        return False, 'letter class misses %s' % sorted(missing)
    if str(op2) != 'MAX_REPEAT':
        return False, 'no digit repeat'
    lo, hi, sub = av2
    if lo != 0:
        return False, 'at least %d digits required (M has none)' % lo
    if hi != MAXREPEAT:
        return False, 'at most %s digits: longer length labels are truncated' % hi
    sub = list(sub)
    digits = set()
    if len(sub) == 1 and str(sub[0][0]) == 'IN':
        for k, v in sub[0][1]:
            if str(k) == 'RANGE':
                digits.update(chr(c) for c in range(v[0], v[1] + 1))
            elif str(k) == 'CATEGORY' and 'DIGIT' in str(v):
                digits.update('0123456789')
    if not set('0123456789') <= digits:
        return False, 'digit class incomplete'
    return True, 'ok'


def r2_tokeniser(ctx, rule):
    n = 0
    for q in (ER + 'edit_terminal_set', ER + 'edit_length'):
        fn = ctx.fn(q)
        for c in calls_in(fn):
            if call_name(c) == 're.findall' and c.args and isinstance(const(c.args[0]), str):
                n += 1
                okk, why = regex_accepts_all_labels(const(c.args[0]))
                if okk:
                    ctx.ok(rule, q, 're-tokenising regex %r accepts every label the trainer can emit' % const(c.args[0]))
                else:
                    ctx.bad(rule, q, 'tokeniser %r: %s' % (const(c.args[0]), why),
                            'every label the trainer emits ([ADOK]<decimal of any length>, Y1, X1, M) must be one token, '
                            'otherwise the structure is rewritten differently from what was read', None, c)
    ctx.floor(rule, 'edit_rules.py', n, 2, 're.findall tokenisers')


def r3_label_lengths(ctx, rule):
    q = ER + 'edit_length'
    fn = ctx.fn(q)
    loops = [n for n in walk_local(fn) if isinstance(n, ast.For) and isinstance(n.iter, ast.Name) and n.iter.id == 'line']
    inner = [l for l in loops if any(isinstance(s, ast.If) for s in l.body)]
    if not inner:
        ctx.unk(rule, q, 'label loop not found')
        return
    lp = inner[-1]
    x = U(lp.target)
    measured = {}
    cur = lp.body[0] if lp.body and isinstance(lp.body[0], ast.If) else None
    other = [s for s in lp.body if not isinstance(s, ast.If)]
    while cur is not None:
        t = cur.test
        if isinstance(t, ast.Compare) and len(t.ops) == 1 and isinstance(t.ops[0], ast.Eq) and U(t.left) == '%s[0]' % x \
                and isinstance(const(t.comparators[0]), str) and len(cur.body) == 1 and isinstance(cur.body[0], ast.AugAssign) \
                and isinstance(cur.body[0].op, ast.Add) and U(cur.body[0].target) == 'total_length':
            measured[const(t.comparators[0])] = U(cur.body[0].value)
        elif isinstance(t, ast.Compare) and len(t.ops) == 1 and isinstance(t.ops[0], ast.In) and U(t.left) == '%s[0]' % x \
                and isinstance(t.comparators[0], (ast.Tuple, ast.List, ast.Set, ast.Constant)) and len(cur.body) == 1 \
                and isinstance(cur.body[0], ast.AugAssign) and isinstance(cur.body[0].op, ast.Add) and U(cur.body[0].target) == 'total_length':
            letters = [const(e) for e in t.comparators[0].elts] if not isinstance(t.comparators[0], ast.Constant) else list(t.comparators[0].value)
            for le in letters:
                if isinstance(le, str) and len(le) == 1:
                    measured[le] = U(cur.body[0].value)
        else:
            ctx.unk(rule, q, 'label measurement is not an `if x[0] == <letter>: total_length += <expr>` chain (%s)' % U(t)[:60])
            return
        if len(cur.orelse) == 1 and isinstance(cur.orelse[0], ast.If):
            cur = cur.orelse[0]
        elif not cur.orelse:
            cur = None
        else:
            ctx.unk(rule, q, 'unexpected else branch in the label chain')
            return
    if other:
        ctx.unk(rule, q, 'extra statements in the label loop: %s' % [U(s)[:40] for s in other])
        return
    # trainer label semantics
    labels = {}
    for det, rel in c03.DET_MODULE.items():
        for letter, info in c03.detector_labels(ctx, rel).items():
            labels[letter] = info
    facts = {'measured': measured, 'trainer_labels': {k: v[:2] for k, v in labels.items()}}
    ok = True
    for letter in sorted(set(labels) - {'E', 'W'}):
        kind = labels[letter][0]
        m = measured.get(letter)
        if kind == 'len':
            if m != 'int(%s[1:])' % x:
                ok = False
                ctx.bad(rule, q, 'label %s measured as %s' % (letter, m), "the trainer builds %s<n> with n = len(segment): its "
                        "length is int(label[1:])" % letter, facts, lp)
        else:
            # constant label: the number in the label is an index, not a length
            if letter == 'Y':
                if m != '4':
                    ok = False
                    ctx.bad(rule, q, 'label Y measured as %s' % m, 'a year segment is always 4 characters (Y1 is a file index)', facts, lp)
            else:
                ctx.bad(rule, q, 'label %s measured as %s' % (letter, m),
                        "the trainer labels every context-sensitive segment X1 whatever its length (values are 2-4 characters, "
                        "e.g. '#1', '<3', 'No.1'); no expression over the label gives the real length, so --max_length keeps "
                        "structures whose guesses are longer than the bound", facts, lp)
    if ok:
        ctx.ok(rule, q, 'A/D/O/K measured as int(label[1:]), Y as 4', facts)


def _emissions(fn):
    """Statements that add text to the result of a filter function: `acc += text`, or `acc.append(text)` with `''.join(acc)` returned.
    -> (list of (stmt, text expr)), accumulator name"""
    out = []
    acc = None
    rets = [r for r in walk_local(fn) if isinstance(r, ast.Return) and r.value is not None]
    for r in rets:
        v = r.value
        if isinstance(v, ast.Name):
            acc = v.id
        elif isinstance(v, ast.Call) and isinstance(v.func, ast.Attribute) and v.func.attr == 'join' and const(v.func.value) == '' \
                and len(v.args) == 1 and isinstance(v.args[0], ast.Name):
            acc = v.args[0].id
    if acc is None:
        return [], None
    for st in walk_stmts(fn.body):
        if isinstance(st, ast.AugAssign) and U(st.target) == acc and isinstance(st.op, ast.Add):
            out.append((st, st.value))
        elif isinstance(st, ast.Expr) and isinstance(st.value, ast.Call) and isinstance(st.value.func, ast.Attribute) \
                and st.value.func.attr == 'append' and U(st.value.func.value) == acc and len(st.value.args) == 1:
            out.append((st, st.value.args[0]))
    return out, acc


def _universal_filter(ctx, fn, mod, emit_stmt):
    """The condition under which `emit_stmt` runs, as a universally quantified predicate: (element name, iterable text, predicate
    text with polarity) for the forms
        flag = False; for x in S: if <not P>: flag = True [break]   ...   if not flag: EMIT
        if all(P for x in S): EMIT            for x in S: if <not P>: break   else: EMIT
    None if the guard of the emission is not one of them."""
    stores = stores_in(fn)
    conds = path_conditions(mod, emit_stmt)
    # drop the conditions that belong to the enclosing line loop's bookkeeping (blank lines etc.): keep the last one
    for t, pol in reversed(conds):
        # all(...)
        if pol and isinstance(t, ast.Call) and call_name(t) == 'all' and len(t.args) == 1 and isinstance(t.args[0], (ast.GeneratorExp, ast.ListComp)) \
                and len(t.args[0].generators) == 1 and not t.args[0].generators[0].ifs:
            g = t.args[0].generators[0]
            return U(g.target), U(expand(fn, g.iter, stores)), U(t.args[0].elt), True
        # flag form
        flag = None
        if isinstance(t, ast.UnaryOp) and isinstance(t.op, ast.Not) and isinstance(t.operand, ast.Name) and pol:
            flag = t.operand.id
        elif isinstance(t, ast.Name) and not pol:
            flag = t.id
        if flag is not None:
            sets = [(s_, v) for s_, v in stores.get(flag, []) if v is not None]
            falses = [s_ for s_, v in sets if const(v) is False]
            trues = [s_ for s_, v in sets if const(v) is True]
            if len(falses) != 1 or len(trues) != 1 or len(sets) != 2:
                return None
            tset = trues[0]
            # the loop that contains the `flag = True`
            lp = mod.parents.get(id(tset))
            guard = None
            while lp is not None and not isinstance(lp, ast.For):
                if isinstance(lp, ast.If) and guard is None:
                    guard = lp
                lp = mod.parents.get(id(lp))
            if lp is None or guard is None:
                return None
            # `flag = False` must be (re)done for every line: same block as the loop, before it
            outer = mod.parents.get(id(lp))
            blk = None
            for f_ in ('body', 'orelse'):
                l_ = getattr(outer, f_, None)
                if isinstance(l_, list) and any(x is lp for x in l_):
                    blk = l_
            if blk is None or not any(x is falses[0] for x in blk) or falses[0].lineno > lp.lineno:
                return None
            in_body = any(x is tset for x in guard.body)
            pred = guard.test
            # flag is set when the predicate FAILS: predicate = negation of the guard (if in body) or the guard itself (if in orelse)
            if in_body:
                if isinstance(pred, ast.UnaryOp) and isinstance(pred.op, ast.Not):
                    ptxt, ppol = U(pred.operand), True
                elif isinstance(pred, ast.Compare) and len(pred.ops) == 1 and isinstance(pred.ops[0], ast.NotIn):
                    ptxt, ppol = '%s in %s' % (U(pred.left), U(pred.comparators[0])), True
                else:
                    ptxt, ppol = U(pred), False
            else:
                ptxt, ppol = U(pred), True
            return U(lp.target), U(expand(fn, lp.iter, stores)), ptxt, ppol
    # for-else form
    par = mod.parents.get(id(emit_stmt))
    if isinstance(par, ast.For) and any(x is emit_stmt for x in par.orelse):
        brk = [x for x in walk_stmts(par.body) if isinstance(x, ast.Break)]
        if len(brk) == 1 and isinstance(mod.parents.get(id(brk[0])), ast.If):
            g = mod.parents.get(id(brk[0]))
            pred = g.test
            if isinstance(pred, ast.UnaryOp) and isinstance(pred.op, ast.Not):
                return U(par.target), U(expand(fn, par.iter, stores)), U(pred.operand), True
            return U(par.target), U(expand(fn, par.iter, stores)), U(pred), False
    return None


def r4_reemission(ctx, rule):
    n = 0
    mod = ctx.repo.modules['edit_rules.py']
    for q in (ER + 'edit_terminal_set', ER + 'edit_length'):
        fn = ctx.fn(q)
        ems, acc = _emissions(fn)
        n += len(ems)
        stores = stores_in(fn)
        # tokens = result of re.findall(<tokeniser>, line); prob = line.split('\t')[1] (strip of surrounding blanks allowed)
        tok = [nm for nm, l_ in stores.items() if any(v is not None and isinstance(v, ast.Call) and call_name(v) == 're.findall' for s_, v in l_)]
        probs = [nm for nm, l_ in stores.items() if any(v is not None and "split('\\t')[1]" in U(v) for s_, v in l_)]
        line_loops = [x for x in walk_local(fn) if isinstance(x, ast.For) and U(x.iter) in ("grammar.split('\\n')", 'grammar.splitlines()')]
        # a loop over a slice of the line list drops lines by position, whatever they contain
        sliced = [x for x in walk_local(fn) if isinstance(x, ast.For) and isinstance(x.iter, ast.Subscript) and isinstance(x.iter.slice, ast.Slice)
                  and U(x.iter.value) in ("grammar.split('\\n')", 'grammar.splitlines()')]
        if sliced:
            ctx.bad(rule, q, 'filter loops over %s' % U(sliced[0].iter), 'every line of the grammar is a candidate: a grammar.txt without a '
                    'final newline (or with one, depending on the slice) loses a base structure that passes every requested filter',
                    None, sliced[0])
            continue
        if not ems or len(tok) != 1 or len(probs) != 1 or not line_loops:
            ctx.unk(rule, q, 're-emission not recognised (accumulator %s, token variables %s, probability variables %s)' % (acc, tok, probs))
            continue
        want = "''.join(%s) + '\\t' + %s + '\\n'" % (tok[0], probs[0])
        pdefs = [U(v) for s_, v in stores[probs[0]] if v is not None]
        pok = all(d.endswith("split('\\t')[1]") or d in ('%s.strip()' % probs[0],) or d.endswith("split('\\t')[1].strip()") for d in pdefs)
        bad = [U(e) for st_, e in ems if U(e) != want]
        if bad or not pok:
            ctx.bad(rule, q, 're-emission ' + str(bad or pdefs)[:100], 'survivors must keep their structure and their '
                    'probability text unchanged, in the original order', None, fn)
        else:
            ctx.ok(rule, q, 'a kept line is re-emitted as joined tokens TAB original probability text LF')
    q = ER + 'check_regex'
    fn = ctx.fn(q)
    ems, acc = _emissions(fn)
    adds = [U(e) for st_, e in ems]
    n += len(adds)
    if adds == ['line', "'\\n'"] or adds == ["line + '\\n'"]:
        ctx.ok(rule, q, 'a kept line is re-emitted verbatim')
    elif not adds:
        ctx.unk(rule, q, 're-emission not recognised')
    else:
        ctx.bad(rule, q, 're-emission %s' % adds, 'survivors must be re-emitted verbatim', None, fn)
    # write-back writes the whole edited text
    eq = ER + 'edit_rules'
    efn = ctx.fn(eq)
    txt = TU(efn)
    if 'for line in grammar:\n            grammar_fp.write(line)' in txt or '.write(grammar)' in txt or '.writelines(grammar)' in txt:
        ctx.ok(rule, eq, 'the edited list is written back completely')
    else:
        ctx.unk(rule, eq, 'write-back of the edited list not recognised')
    ctx.floor(rule, 'edit_rules.py', n, 3, 're-emission sites')


def r5_filter_kernels(ctx, rule):
    # length kernel: keep iff total == 0 or (total >= min and (max == 0 or total <= max))
    q = ER + 'edit_length'
    fn = ctx.fn(q)
    ps = params(fn)
    mn, mx = ps[1], ps[2]
    chain = None
    for n in walk_local(fn):
        if isinstance(n, ast.If) and 'total_length' in U(n.test) and any(isinstance(s, ast.AugAssign) and U(s.target) == 'return_grammar'
                                                                           for s in n.body):
            chain = n
            break
    if chain is None:
        ctx.unk(rule, q, 'keep/drop decision not found')
    else:
        terms = Terms({'total_length': 'T', mn: 'MIN', mx: 'MAX'})

        class H(Hooks):
            def event(self, st):
                if isinstance(st, ast.AugAssign) and U(st.target) == 'return_grammar':
                    return 'keep'
                return None

            def kills(self, st, terms):
                return False
        wrong = []
        states = 0
        for t, a, b in itertools.product(range(0, 4), range(0, 4), range(0, 4)):
            vals = {'T': t, 'MIN': a, 'MAX': b, ('const', 0): 0}
            sigma = {}
            keys = list(vals)
            for i in keys:
                for j in keys:
                    if i != j:
                        sigma[(i, j)] = LT if vals[i] < vals[j] else (GT if vals[i] > vals[j] else EQ)
            outs = outcomes([chain], sigma, terms, H())
            states += 1
            kept = {('keep' in tr) for k, d, tr in outs}
            if any(k == 'unknown' for k, d, tr in outs) or len(kept) != 1:
                ctx.unk(rule, q, 'cannot evaluate the length kernel for total=%d min=%d max=%d' % (t, a, b))
                wrong = None
                break
            want = (t == 0) or (t >= a and (b == 0 or t <= b))
            if kept.pop() != want:
                wrong.append((t, a, b, want))
        ctx.stats['kernel_states'] += states
        if wrong is None:
            pass
        elif wrong:
            ctx.bad(rule, q, 'length filter differs from the specification for (total,min,max) = %s' % wrong[:4],
                    'a structure is kept iff its length is 0 (Markov) or min <= length and (max == 0 or length <= max)',
                    {'disagreements': wrong[:10]}, chain)
        else:
            ctx.ok(rule, q, 'keep iff total == 0 or (total >= min and (max == 0 or total <= max)) on all %d orderings' % states)
    # terminal-set kernel: keep iff every token letter is in the set
    mod = ctx.repo.modules['edit_rules.py']
    q = ER + 'edit_terminal_set'
    fn = ctx.fn(q)
    ts = params(fn)[1]
    ems, acc = _emissions(fn)
    uf = _universal_filter(ctx, fn, mod, ems[0][0]) if ems else None
    stores = stores_in(fn)
    tok = [nm for nm, l_ in stores.items() if any(v is not None and isinstance(v, ast.Call) and call_name(v) == 're.findall' for s_, v in l_)]
    if uf is None or len(tok) != 1:
        ctx.unk(rule, q, 'terminal-set filter is not in a recognised universal form (flag loop, all(...), for/else)')
    else:
        x, it, pred, pol = uf
        good = pol and pred == '%s[0] in %s' % (x, ts) and (it == tok[0] or it.startswith('re.findall('))
        if good:
            ctx.ok(rule, q, 'a structure is kept iff every token letter is in the terminal set', {'forall': uf})
        else:
            ctx.bad(rule, q, 'terminal-set filter: keep iff for all %s in %s: %s%s' % (x, it, '' if pol else 'not ', pred),
                    'keep iff all labels lie in the set', {'forall': uf}, fn)
    # regex kernel: keep iff every regex matches the structure string (field 0 of the line)
    q = ER + 'check_regex'
    fn = ctx.fn(q)
    ps = params(fn)
    ems, acc = _emissions(fn)
    uf = _universal_filter(ctx, fn, mod, ems[0][0]) if ems else None
    stores = stores_in(fn)
    if uf is None:
        ctx.unk(rule, q, 'regex filter is not in a recognised universal form (flag loop, all(...), for/else)')
    else:
        x, it, pred, pol = uf
        m = re.fullmatch(r're\.search\((\w+), (\w+)\)', pred)
        struct_ok = False
        if m and m.group(1) == x:
            sdefs = [U(v) for s_, v in stores.get(m.group(2), []) if v is not None]
            struct_ok = sdefs == ["line.split('\\t')[0]"]
        if pol and m and struct_ok and it == ps[1]:
            ctx.ok(rule, q, 'a structure is kept iff every regex matches the structure string', {'forall': uf})
        else:
            ctx.bad(rule, q, 'regex filter: keep iff for all %s in %s: %s%s' % (x, it, '' if pol else 'not ', pred),
                    'keep iff all regexes match the structure (not the probability)', {'forall': uf}, fn)


def r6_option_plumbing(ctx, rule):
    """The filters the user asked for reach the filter functions unchanged."""
    q = ER + 'parse_command_line'
    fn = ctx.fn(q)
    want = {"program_info['terminal_set']": ["[x.upper() for x in args.terminal_set.split(',')]", 'False'],
            "program_info['regex']": ["[x for x in args.regex.split(',')]", "args.regex.split(',')"],
            "program_info['min_length']": ['int(args.min_length)'], "program_info['max_length']": ['int(args.max_length)'],
            "program_info['rule']": ['args.rule'], "program_info['copy']": ['args.copy']}
    seen = {}
    for s in walk_stmts(fn.body):
        if isinstance(s, ast.Assign) and U(s.targets[0]) in want:
            seen.setdefault(U(s.targets[0]), []).append(U(s.value))
    ok = True
    for k, allowed in want.items():
        vals = seen.get(k, [])
        if not vals or any(v not in allowed for v in vals):
            ok = False
            ctx.bad(rule, q, '%s = %s' % (k, vals), 'the option must reach the filter as the user gave it (no letters dropped, '
                    'no bounds altered): otherwise structures are removed that pass the requested filter, or kept that fail it',
                    {'assignments': seen}, fn)
    # nothing removes letters from the set afterwards
    for qq in (q, ER + 'edit_rules', ER + 'main'):
        f2 = ctx.fn(qq)
        for c in calls_in(f2):
            if isinstance(c.func, ast.Attribute) and c.func.attr in ('remove', 'discard', 'pop') and 'terminal_set' in U(c.func.value):
                ok = False
                ctx.bad(rule, qq, 'terminal set altered: ' + U(c)[:60], 'the requested terminal set must be used as given', None, c)
    ef = ctx.fn(ER + 'edit_rules')
    txt = TU(ef)
    calls_ok = "edit_length(grammar, config.get('min_length'), config.get('max_length'))" in txt \
        and "edit_terminal_set(grammar, config.get('terminal_set'))" in txt and "check_regex(grammar, config.get('regex'))" in txt
    if not calls_ok:
        ok = False
        ctx.bad(rule, ER + 'edit_rules', 'filter calls', 'each filter must receive the corresponding option', None, ef)
    if ok:
        ctx.ok(rule, q, 'terminal set, regex list and length bounds reach the filters as given', {'assignments': seen})


def _supported_only(ctx, rule):
    from . import c06
    return c06.r5_supported_only(ctx, rule)


def _record_layout(ctx, rule):
    from . import c07
    return c07.r3_record_layout(ctx, rule, scope='pcfg')


FILTERS = ('edit_length', 'edit_terminal_set', 'check_regex')


def r14_filter_guards(ctx, rule):
    """Each filter runs whenever its option was given: edit_length when min_length OR max_length is set (either bound alone is a
    request), edit_terminal_set when terminal_set is, check_regex when regex is.  (Mutation sweep: `min_length and max_length` -
    a run with --max_length alone then filters nothing, silently.)"""
    q = ER + 'edit_rules'
    fn = ctx.fn(q)
    mod = ctx.repo.modules['edit_rules.py']
    want = {'edit_length': {'min_length', 'max_length'}, 'edit_terminal_set': {'terminal_set'}, 'check_regex': {'regex'}}
    ok = True
    n = 0
    for st in walk_stmts(fn.body):
        if isinstance(st, ast.Assign) and isinstance(st.value, ast.Call) and call_name(st.value) in want:
            n += 1
            name = call_name(st.value)
            conds = path_conditions(mod, st)
            if len(conds) != 1 or not conds[0][1]:
                ok = False
                ctx.unk(rule, q, '%s runs under %s' % (name, [(U(t), p) for t, p in conds]))
                continue
            t = conds[0][0]
            opts = {const(c.args[0]) for c in ast.walk(t) if isinstance(c, ast.Call) and isinstance(c.func, ast.Attribute) and c.func.attr == 'get'
                    and c.args and isinstance(const(c.args[0]), str)} | \
                   {const(x.slice) for x in ast.walk(t) if isinstance(x, ast.Subscript) and isinstance(const(x.slice), str)}
            conj = any(isinstance(x, ast.BoolOp) and isinstance(x.op, ast.And) for x in ast.walk(t))
            neg = any(isinstance(x, ast.UnaryOp) and isinstance(x.op, ast.Not) for x in ast.walk(t))
            if opts != want[name] or neg:
                ok = False
                ctx.unk(rule, q, '%s is guarded by %s' % (name, U(t)[:70]))
            elif conj and len(want[name]) > 1:
                ok = False
                ctx.bad(rule, q, '%s only runs when %s' % (name, U(t)[:70]), 'either bound alone is a request: with only --max_length (or only '
                        '--min_length) given the length filter must still run', None, st, firm=True)
    if ctx.floor(rule, q, n, 3, 'filter applications in edit_rules') and ok:
        ctx.ok(rule, q, 'each of the three filters runs whenever (one of) its option(s) is set')


def r9_filter_chain(ctx, rule):
    """With several filter options the structures kept are those passing ALL of them: in edit_rules every filter reads the text the
    previous step left and writes its result back to the same variable, that variable starts as the text read from grammar.txt
    and is what is written back.  (Seed C20-i sent every result to a new variable `edited` while every filter still read the
    unfiltered `grammar`: only the last requested filter took effect.)"""
    q = ER + 'edit_rules'
    fn = ctx.fn(q)
    stores = stores_in(fn)
    steps = []
    for st in walk_stmts(fn.body):
        if isinstance(st, ast.Assign) and isinstance(st.value, ast.Call) and call_name(st.value) in FILTERS:
            steps.append(st)
    if not ctx.floor(rule, q, len(steps), 3, 'filter applications in edit_rules'):
        return
    # the variable holding the text read from the file (possibly copied once: edited = grammar)
    read = [nm for nm, l_ in stores.items() if any(v is not None and '.read()' in U(v) for s_, v in l_)]
    if len(read) != 1:
        ctx.unk(rule, q, 'the variable holding the text of grammar.txt is not recognised: %s' % read)
        return
    holders = {read[0]}
    for nm, l_ in stores.items():
        firsts = sorted(((s_.lineno, v) for s_, v in l_ if v is not None), key=lambda t: t[0])
        if firsts and isinstance(firsts[0][1], ast.Name) and firsts[0][1].id == read[0] and firsts[0][0] < steps[0].lineno:
            holders.add(nm)
    bad = False
    cur = None
    for st in steps:
        tgt = st.targets[0]
        a0 = st.value.args[0] if st.value.args else None
        if not (isinstance(tgt, ast.Name) and isinstance(a0, ast.Name) and len(st.targets) == 1):
            ctx.unk(rule, q, 'filter application not understood: %s' % U(st)[:80])
            return
        if tgt.id != a0.id or a0.id not in holders or (cur is not None and a0.id != cur):
            bad = True
            ctx.bad(rule, q, 'filter reads %s, result goes to %s: %s' % (a0.id, tgt.id, U(st)[:60]),
                    'every filter must work on what the filters before it left and hand its result to the next one; otherwise the '
                    'structures removed by an earlier option are back in the text the later option writes (or the later result is '
                    'lost), and the file keeps structures that fail a requested filter', None, st)
        cur = tgt.id
    # what is written back
    written = [U(c.args[0]) for c in calls_in(fn) if isinstance(c.func, ast.Attribute) and c.func.attr in ('write', 'writelines') and c.args]
    wloops = [lp for lp in walk_local(fn) if isinstance(lp, ast.For) and isinstance(lp.target, ast.Name)
              and any(w == lp.target.id for w in written)]
    src = [U(lp.iter) for lp in wloops] + [w for w in written if not any(w == lp.target.id for lp in wloops)]
    if cur is not None and src and any(s_ != cur for s_ in src):
        bad = True
        ctx.bad(rule, q, 'written back: %s, filtered text is in %s' % (src, cur), 'the file must receive the result of the last filter', None, fn)
    elif not src:
        ctx.unk(rule, q, 'write-back not recognised')
        return
    if not bad:
        ctx.ok(rule, q, 'the %d filters are chained through %s, which is read from and written back to grammar.txt' % (len(steps), cur))


def _length_tables(ctx, rule):
    # edit_length trusts the label: A8 must stand for 8-character values, which holds only if the trainer files every value under
    # its own length (seed C20-k: Counter(item) for a new length bucket filed the characters of the first item instead)
    from . import c05
    return c05.r6_counter_pairing(ctx, rule)

def _shared_rule(mod, name, **kw):
    def run(ctx, rule):
        import importlib
        return getattr(importlib.import_module('sa.props.' + mod), name)(ctx, rule, **kw)
    return run


def rules(tier):
    return [('C20.R1', r1_effect_set), ('C20.R2', r2_tokeniser), ('C20.R3', r3_label_lengths), ('C20.R4', r4_reemission),
            ('C20.R5', r5_filter_kernels), ('C20.R6', r6_option_plumbing),
            ('C20.R7', _supported_only), ('C20.R8', _record_layout), ('C20.R9', r9_filter_chain), ('C20.R10', _length_tables),
            # the filter options reach the editor under their own keys
            ('C20.R11', _shared_rule('plumbing', 'option_round_trip')),
            # C20-ca: --rule reduced to its basename: a ruleset named by sub folder or path edits another ruleset
            ('C20.R12', _shared_rule('plumbing', 'options_not_rewritten')),
            # C20-da: terminal files written as utf-8 while config.ini records the training encoding - values come back longer than their label
            ('C20.R13', _shared_rule('c07', 'r2_encoding_agreement')),
            # mutation sweep: the length filter guarded by min_length AND max_length
            ('C20.R14', _shared_rule('c20', 'r14_filter_guards')),
            # C20-eb: fall-back to raw_grammar.txt when the edited grammar.txt is empty
            ('C20.R15', _shared_rule('plumbing', 'who_may')),
            # C20-ga: new_end = [] in front of the mask loop - tied masks produce guesses longer than the structure allows
            ('C20.R16', _shared_rule('c04', 'r3_mask_slices'))]


META = {
    'explanation': 'Effect set: the only file-system mutations reachable from edit_rules.main are copytree(rule, copy) with the '
                   'default copy function and open(<rule>/Grammar/grammar.txt, w), with the rule switched to the copy first; the '
                   're-tokenising regex (analysed as a regex AST) accepts every label the trainer emits; label->length table '
                   'agrees with how the trainer builds labels; survivors re-emitted with their probability text; the length '
                   'filter kernel evaluated on all orderings of (total, min, max, 0) against the specification.',
    'trusted_base': ['python ast', 're._parser regex AST', 'resolver/call graph'],
    'assumptions': ['min_length/max_length are non-negative integers (argparse int conversion, default 0)'],
    'not_decided': 'semantics of user-supplied --regex filters; real length of X1 values (known finding)',
    'technique': 'effect-set rule over the call graph + regex-AST analysis + finite ordering-domain evaluation of the filter kernel',
}

META['explanation'] += ' ' + 'Further: options reach the filters as given; only supported structures ever enter grammar.txt; record layout of the PCFG files.'
META['explanation'] += ' ' + 'Round 14: the mask application of the guesser starts every mask from an empty tail (guess length = structure length).'
