"""Shared extractors for the guesser core (pcfg_grammar.py / priority_queue.py)."""
import ast
import copy as _copy

from ..core import (U, walk_local, calls_in, call_name, dotted, const, NOCONST, params, stores_in, single_def,
                    expand, path_conditions, walk_stmts, arg_for)
from ..lin import lin, Lin

PGF = 'lib_guesser/pcfg_grammar.py'
PG = PGF + '::PcfgGrammar.'
PQF = 'lib_guesser/priority_queue.py'
PQ = PQF + '::PcfgQueue.'
QI = PQF + '::QueueItem.'
GIO = 'lib_guesser/grammar_io.py::'
CSF = 'lib_guesser/cracking_session.py'
CS = CSF + '::CrackingSession.'

COPIERS = {'copy.copy': 1, 'copy.deepcopy': 99, 'list': 1, 'deepcopy': 99}


def copy_depth(node):
    """Depth of the copy an expression makes of its argument: (depth, source expr) or (0, None)."""
    if isinstance(node, ast.Call):
        d = call_name(node)
        if d in COPIERS and len(node.args) >= 1:
            return COPIERS[d], node.args[0]
        if isinstance(node.func, ast.Attribute) and node.func.attr == 'copy' and not node.args:
            return 1, node.func.value
    if isinstance(node, ast.Subscript) and isinstance(node.slice, ast.Slice) \
            and node.slice.lower is None and node.slice.upper is None and node.slice.step is None:
        return 1, node.value
    if isinstance(node, ast.ListComp) and len(node.generators) == 1 and not node.generators[0].ifs:
        g = node.generators[0]
        if isinstance(g.target, ast.Name):
            d, src = copy_depth(node.elt)
            if d and isinstance(src, ast.Name) and src.id == g.target.id:
                return 1 + d, g.iter
            if isinstance(node.elt, ast.Name) and node.elt.id == g.target.id:
                return 1, g.iter
    if isinstance(node, ast.BinOp) and isinstance(node.op, ast.Add):
        # [] + x  /  x + []
        if isinstance(node.left, ast.List) and not node.left.elts:
            return 1, node.right
        if isinstance(node.right, ast.List) and not node.right.elts:
            return 1, node.left
    return 0, None


def find_prob_call(node):
    """If node is `self._find_prob(X, B)` return (X, B)."""
    if isinstance(node, ast.Call) and call_name(node) == 'self._find_prob':
        a = list(node.args) + [None, None]
        x = a[0]
        b = a[1]
        for kw in node.keywords:
            if kw.arg == 'pt':
                x = kw.value
            if kw.arg == 'base_prob':
                b = kw.value
        return x, b
    return None


class Neighbour:
    """A neighbour construction: `new = copy(src); new[p] = (T, I +/- k)` inside a loop over positions."""

    def __init__(self):
        self.loop = None        # the For node
        self.pos = None         # name of the position variable
        self.item = None        # name of the element variable (or None)
        self.src = None         # text of the list iterated over
        self.copy_stmt = None
        self.store_stmt = None
        self.new = None         # name of the new list
        self.copy_depth = 0
        self.copy_src = None
        self.step = None        # Lin: stored index minus old index
        self.type_ok = False
        self.problems = []


def _canon_item(node, nb, extra_aliases=()):
    """Rewrite spellings of 'the element at the loop position' to the name ITEM."""
    node = _copy.deepcopy(node)
    aliases = set(extra_aliases)
    if nb.item:
        aliases.add(nb.item)
    for s_ in [nb.src] + list(getattr(nb, 'src_alts', ())):
        aliases.add('%s[%s]' % (s_, nb.pos))
    if nb.new:
        aliases.add('%s[%s]' % (nb.new, nb.pos))

    class T(ast.NodeTransformer):
        def generic_visit(self, n):
            if isinstance(n, ast.expr) and U(n) in aliases:
                return ast.Name(id='ITEM', ctx=ast.Load())
            return super().generic_visit(n)
    return T().visit(node)


def position_loops(fn):
    """`for pos, item in enumerate(L)` / `for pos in range(a, len(L))` loops: yield (For, pos, item, Ltext, start)."""
    for n in walk_local(fn):
        if not isinstance(n, ast.For):
            continue
        it = n.iter
        if isinstance(it, ast.Call) and call_name(it) == 'enumerate' and len(it.args) == 1 \
                and isinstance(n.target, ast.Tuple) and len(n.target.elts) == 2 \
                and all(isinstance(e, ast.Name) for e in n.target.elts):
            yield n, n.target.elts[0].id, n.target.elts[1].id, U(it.args[0]), None
        elif isinstance(it, ast.Call) and call_name(it) == 'range' and isinstance(n.target, ast.Name):
            args = it.args
            if len(args) == 1:
                start, stop = None, args[0]
            elif len(args) == 2:
                start, stop = args
            else:
                continue
            yield n, n.target.id, None, ('range', start, stop), start


def neighbour_in_loop(fn, loop, pos, item, src, stores=None):
    """Find `new = copy(src)` and `new[pos] = (T, I+k)` in the loop body."""
    stores = stores or stores_in(fn)
    nb = Neighbour()
    nb.loop, nb.pos, nb.item, nb.src = loop, pos, item, src
    for st in walk_stmts(loop.body):
        if isinstance(st, ast.Assign) and len(st.targets) == 1:
            t = st.targets[0]
            if isinstance(t, ast.Subscript) and isinstance(t.value, ast.Name) and U(t.slice) == pos \
                    and isinstance(st.value, ast.Tuple) and len(st.value.elts) == 2:
                nb.store_stmt = st
                nb.new = t.value.id
    if nb.store_stmt is None:
        return None
    # the definition of `new`
    for st in walk_stmts(loop.body):
        if isinstance(st, ast.Assign) and len(st.targets) == 1 and isinstance(st.targets[0], ast.Name) \
                and st.targets[0].id == nb.new:
            nb.copy_stmt = st
            nb.copy_depth, s = copy_depth(st.value)
            nb.copy_src = U(s) if s is not None else U(st.value)
    return nb


def resolve_range_src(fn, nb, stores):
    """For a range-based loop find the list the positions index: stop == len(L) (through single-def locals)."""
    nb.src_alts = []
    if isinstance(nb.src, tuple):
        _, start, stop = nb.src
        e = stop
        for _ in range(3):
            if isinstance(e, ast.Name) and single_def(fn, e.id, stores) is not None:
                e = single_def(fn, e.id, stores)
            else:
                break
        if isinstance(e, ast.Call) and call_name(e) == 'len' and len(e.args) == 1:
            nb.src = U(e.args[0])
        else:
            return False
    # alternative spellings of the list (single-definition locals)
    cur = nb.src
    for _ in range(3):
        try:
            node = ast.parse(cur, mode='eval').body
        except SyntaxError:
            break
        if isinstance(node, ast.Name) and single_def(fn, node.id, stores) is not None:
            cur = U(single_def(fn, node.id, stores))
            nb.src_alts.append(cur)
        else:
            break
    return True


def analyse_step(fn, nb, stores):
    """Fill nb.step (Lin of stored index - ITEM[1]) and nb.type_ok."""
    aliases = set()
    # names defined as src[pos] inside the loop body (e.g. item = parent_pt[pos])
    for st in walk_stmts(nb.loop.body):
        if isinstance(st, ast.Assign) and len(st.targets) == 1 and isinstance(st.targets[0], ast.Name) \
                and U(st.value) in ['%s[%s]' % (s_, nb.pos) for s_ in [nb.src] + list(getattr(nb, 'src_alts', ()))]:
            aliases.add(st.targets[0].id)
    nb.aliases = aliases
    local = {}
    for st in walk_stmts(nb.loop.body):
        if isinstance(st, ast.Assign) and len(st.targets) == 1 and isinstance(st.targets[0], ast.Name):
            local.setdefault(st.targets[0].id, []).append(st.value)

    def inline(node, depth=3):
        node = _copy.deepcopy(node)

        class T(ast.NodeTransformer):
            def visit_Name(self, n):
                if isinstance(n.ctx, ast.Load) and n.id in local and len(local[n.id]) == 1 and depth > 0 \
                        and n.id not in aliases and n.id != nb.new:
                    return inline(local[n.id][0], depth - 1)
                return n
        return T().visit(node)
    nb.inline = inline
    tup = nb.store_stmt.value
    t_el = _canon_item(inline(tup.elts[0]), nb, aliases)
    i_el = _canon_item(inline(tup.elts[1]), nb, aliases)
    nb.type_ok = U(t_el) == 'ITEM[0]'
    li = lin(i_el)
    base = Lin({'ITEM[1]': 1}, 0)
    nb.step = None if li is None else (li - base)
    return nb


def guard_offsets(mod, fn, nb, stmt, len_of):
    """Look at the path conditions of `stmt` inside the loop and return the list of (kind, offset) facts they give
    about  D = ITEM[1] - len_of(ITEM[0])  or about ITEM[1] alone.
    kind: 'len' with the constant k such that the condition implies  ITEM[1] + k != / < LEN ;  'zero' likewise
    for ITEM[1] != k0."""
    facts = []
    for test, pol in path_conditions(mod, stmt, stop=nb.loop):
        t = _canon_item(nb.inline(test), nb, nb.aliases)
        if not (isinstance(t, ast.Compare) and len(t.ops) == 1):
            continue
        op = t.ops[0]
        a, b = lin(t.left), lin(t.comparators[0])
        if a is None or b is None:
            continue
        d = a - b
        facts.append((d, op.__class__.__name__, pol, U(test)))
    return facts


def implies_nonzero_or_negative(d, opname, pol, target):
    """Does the condition (d <op> 0) with polarity `pol` imply target != 0 (given target <= 0 is an invariant) ?
    Returns True / False."""
    for sign in (1, -1):
        if d == (target if sign == 1 else -target):
            if opname == 'Eq' and not pol:
                return True
            if opname == 'NotEq' and pol:
                return True
            lt = (opname == 'Lt' and pol) or (opname == 'GtE' and not pol)
            gt = (opname == 'Gt' and pol) or (opname == 'LtE' and not pol)
            if sign == 1 and lt:
                return True
            if sign == -1 and gt:
                return True
    return False
