"""Shared extractors for the guesser core (pcfg_grammar.py / priority_queue.py)."""
import ast
import copy as _copy

from ..core import (U, walk_local, calls_in, call_name, dotted, const, NOCONST, params, stores_in, single_def,
                    expand, path_conditions, walk_stmts, arg_for, enclosing_func)
from ..lin import lin, Lin

PGF = 'lib_guesser/pcfg_grammar.py'
PG = PGF + '::PcfgGrammar.'
PQF = 'lib_guesser/priority_queue.py'
PQ = PQF + '::PcfgQueue.'
QI = PQF + '::QueueItem.'
GIO = 'lib_guesser/grammar_io.py::'
CSF = 'lib_guesser/cracking_session.py'
CS = CSF + '::CrackingSession.'

COPIERS = {'copy.copy': 1, 'copy.deepcopy': 99, 'list': 1, 'deepcopy': 99}


def copy_depth(node):
    """Depth of the copy an expression makes of its argument: (depth, source expr) or (0, None)."""
    if isinstance(node, ast.Call):
        d = call_name(node)
        if d in COPIERS and len(node.args) >= 1:
            return COPIERS[d], node.args[0]
        if isinstance(node.func, ast.Attribute) and node.func.attr == 'copy' and not node.args:
            return 1, node.func.value
    if isinstance(node, ast.Subscript) and isinstance(node.slice, ast.Slice) \
            and node.slice.lower is None and node.slice.upper is None and node.slice.step is None:
        return 1, node.value
    if isinstance(node, ast.ListComp) and len(node.generators) == 1 and not node.generators[0].ifs:
        g = node.generators[0]
        if isinstance(g.target, ast.Name):
            d, src = copy_depth(node.elt)
            if d and isinstance(src, ast.Name) and src.id == g.target.id:
                return 1 + d, g.iter
            if isinstance(node.elt, ast.Name) and node.elt.id == g.target.id:
                return 1, g.iter
    if isinstance(node, ast.BinOp) and isinstance(node.op, ast.Add):
        # [] + x  /  x + []
        if isinstance(node.left, ast.List) and not node.left.elts:
            return 1, node.right
        if isinstance(node.right, ast.List) and not node.right.elts:
            return 1, node.left
    return 0, None


def find_prob_call(node):
    """If node is `self._find_prob(X, B)` return (X, B)."""
    if isinstance(node, ast.Call) and call_name(node) == 'self._find_prob':
        a = list(node.args) + [None, None]
        x = a[0]
        b = a[1]
        for kw in node.keywords:
            if kw.arg == 'pt':
                x = kw.value
            if kw.arg == 'base_prob':
                b = kw.value
        return x, b
    return None


class Neighbour:
    """A neighbour construction: `new = copy(src); new[p] = (T, I +/- k)` inside a loop over positions."""

    def __init__(self):
        self.loop = None        # the For node
        self.pos = None         # name of the position variable
        self.item = None        # name of the element variable (or None)
        self.src = None         # text of the list iterated over
        self.copy_stmt = None
        self.store_stmt = None
        self.new = None         # name of the new list
        self.copy_depth = 0
        self.copy_src = None
        self.step = None        # Lin: stored index minus old index
        self.type_ok = False
        self.problems = []


def _canon_item(node, nb, extra_aliases=()):
    """Rewrite spellings of 'the element at the loop position' to the name ITEM."""
    node = _copy.deepcopy(node)
    aliases = set(extra_aliases)
    if nb.item:
        aliases.add(nb.item)
    for s_ in [nb.src] + list(getattr(nb, 'src_alts', ())):
        aliases.add('%s[%s]' % (s_, nb.pos))
    if nb.new:
        aliases.add('%s[%s]' % (nb.new, nb.pos))

    class T(ast.NodeTransformer):
        def generic_visit(self, n):
            if isinstance(n, ast.expr) and U(n) in aliases:
                return ast.Name(id='ITEM', ctx=ast.Load())
            return super().generic_visit(n)
    return T().visit(node)


def position_loops(fn):
    """`for pos, item in enumerate(L)` / `for pos in range(a, len(L))` loops: yield (For, pos, item, Ltext, start)."""
    for n in walk_local(fn):
        if not isinstance(n, ast.For):
            continue
        it = n.iter
        if isinstance(it, ast.Call) and call_name(it) == 'enumerate' and len(it.args) == 1 \
                and isinstance(n.target, ast.Tuple) and len(n.target.elts) == 2 \
                and all(isinstance(e, ast.Name) for e in n.target.elts):
            yield n, n.target.elts[0].id, n.target.elts[1].id, U(it.args[0]), None
        elif isinstance(it, ast.Call) and call_name(it) == 'range' and isinstance(n.target, ast.Name):
            args = it.args
            if len(args) == 1:
                start, stop = None, args[0]
            elif len(args) == 2:
                start, stop = args
            else:
                continue
            yield n, n.target.id, None, ('range', start, stop), start


def neighbour_in_loop(fn, loop, pos, item, src, stores=None):
    """Find `new = copy(src)` and `new[pos] = (T, I+k)` in the loop body."""
    stores = stores or stores_in(fn)
    nb = Neighbour()
    nb.loop, nb.pos, nb.item, nb.src = loop, pos, item, src
    for st in walk_stmts(loop.body):
        if isinstance(st, ast.Assign) and len(st.targets) == 1:
            t = st.targets[0]
            if isinstance(t, ast.Subscript) and isinstance(t.value, ast.Name) and U(t.slice) == pos \
                    and isinstance(st.value, ast.Tuple) and len(st.value.elts) == 2:
                nb.store_stmt = st
                nb.new = t.value.id
    if nb.store_stmt is None:
        return None
    # the definition of `new`
    for st in walk_stmts(loop.body):
        if isinstance(st, ast.Assign) and len(st.targets) == 1 and isinstance(st.targets[0], ast.Name) \
                and st.targets[0].id == nb.new:
            nb.copy_stmt = st
            nb.copy_depth, s = copy_depth(st.value)
            nb.copy_src = U(s) if s is not None else U(st.value)
    return nb


def resolve_range_src(fn, nb, stores):
    """For a range-based loop find the list the positions index: stop == len(L) (through single-def locals)."""
    nb.src_alts = []
    if isinstance(nb.src, tuple):
        _, start, stop = nb.src
        e = stop
        for _ in range(3):
            if isinstance(e, ast.Name) and single_def(fn, e.id, stores) is not None:
                e = single_def(fn, e.id, stores)
            else:
                break
        if isinstance(e, ast.Call) and call_name(e) == 'len' and len(e.args) == 1:
            nb.src = U(e.args[0])
        else:
            return False
    # alternative spellings of the list (single-definition locals)
    cur = nb.src
    for _ in range(3):
        try:
            node = ast.parse(cur, mode='eval').body
        except SyntaxError:
            break
        if isinstance(node, ast.Name) and single_def(fn, node.id, stores) is not None:
            cur = U(single_def(fn, node.id, stores))
            nb.src_alts.append(cur)
        else:
            break
    return True


def analyse_step(fn, nb, stores):
    """Fill nb.step (Lin of stored index - ITEM[1]) and nb.type_ok."""
    aliases = set()
    # names defined as src[pos] inside the loop body (e.g. item = parent_pt[pos])
    for st in walk_stmts(nb.loop.body):
        if isinstance(st, ast.Assign) and len(st.targets) == 1 and isinstance(st.targets[0], ast.Name) \
                and U(st.value) in ['%s[%s]' % (s_, nb.pos) for s_ in [nb.src] + list(getattr(nb, 'src_alts', ()))]:
            aliases.add(st.targets[0].id)
    nb.aliases = aliases
    local = {}
    for st in walk_stmts(nb.loop.body):
        if isinstance(st, ast.Assign) and len(st.targets) == 1 and isinstance(st.targets[0], ast.Name):
            local.setdefault(st.targets[0].id, []).append(st.value)

    def inline(node, depth=3):
        node = _copy.deepcopy(node)

        class T(ast.NodeTransformer):
            def visit_Name(self, n):
                if isinstance(n.ctx, ast.Load) and n.id in local and len(local[n.id]) == 1 and depth > 0 \
                        and n.id not in aliases and n.id != nb.new:
                    return inline(local[n.id][0], depth - 1)
                return n
        return T().visit(node)
    nb.inline = inline
    tup = nb.store_stmt.value
    t_el = _canon_item(inline(tup.elts[0]), nb, aliases)
    i_el = _canon_item(inline(tup.elts[1]), nb, aliases)
    nb.type_ok = U(t_el) == 'ITEM[0]'
    li = lin(i_el)
    base = Lin({'ITEM[1]': 1}, 0)
    nb.step = None if li is None else (li - base)
    return nb


def guard_offsets(mod, fn, nb, stmt, len_of):
    """Look at the path conditions of `stmt` inside the loop and return the list of (kind, offset) facts they give
    about  D = ITEM[1] - len_of(ITEM[0])  or about ITEM[1] alone.
    kind: 'len' with the constant k such that the condition implies  ITEM[1] + k != / < LEN ;  'zero' likewise
    for ITEM[1] != k0."""
    facts = []
    for test, pol in path_conditions(mod, stmt, stop=nb.loop):
        t = _canon_item(nb.inline(test), nb, nb.aliases)
        if not (isinstance(t, ast.Compare) and len(t.ops) == 1):
            continue
        op = t.ops[0]
        a, b = lin(t.left), lin(t.comparators[0])
        if a is None or b is None:
            continue
        d = a - b
        facts.append((d, op.__class__.__name__, pol, U(test)))
    return facts


def implies_nonzero_or_negative(d, opname, pol, target):
    """Does the condition (d <op> 0) with polarity `pol` imply target != 0 (given target <= 0 is an invariant) ?
    Returns True / False."""
    for sign in (1, -1):
        if d == (target if sign == 1 else -target):
            if opname == 'Eq' and not pol:
                return True
            if opname == 'NotEq' and pol:
                return True
            lt = (opname == 'Lt' and pol) or (opname == 'GtE' and not pol)
            gt = (opname == 'Gt' and pol) or (opname == 'LtE' and not pol)
            if sign == 1 and lt:
                return True
            if sign == -1 and gt:
                return True
    return False


# ---------------------------------------------------------------------------------------------
# memoisation discipline (seed C06-e): a memoised function hands the *same* object to every caller
MEMO_DECORATORS = {'lru_cache', 'cache', 'cached_property', 'memoize', 'memoized', 'memo'}
_LIST_MUTATORS = {'append', 'extend', 'insert', 'pop', 'remove', 'sort', 'reverse', 'clear', 'update', 'add',
                  'discard', 'setdefault', 'popitem', 'appendleft', 'popleft'}


def _memo_decorated(fn):
    for d in getattr(fn, 'decorator_list', []):
        t = d.func if isinstance(d, ast.Call) else d
        name = dotted(t) or ''
        if name.rpartition('.')[2] in MEMO_DECORATORS:
            return name
    return None


def memo_discipline(ctx, rule, roots, anchor):
    """No memoised function in the closure of `roots` has its result mutated in place by a caller.

    A memoising decorator returns the cached object itself; a caller that extends/sorts/stores into it changes what
    every later caller with the same arguments receives, so the function's result depends on the history of earlier
    calls (order of the training file, which guesses came before) instead of on its arguments."""
    repo = ctx.repo
    closure = ctx.resolver.closure(roots)
    memo = {}
    n_funcs = 0
    for qual, fn in repo.all_funcs():
        rel = qual.partition('::')[0]
        if rel not in closure:
            continue
        n_funcs += 1
        d = _memo_decorated(fn)
        if d:
            memo[fn.name] = (qual, d)
    bad = 0
    sites = 0
    for qual, fn in repo.all_funcs():
        rel = qual.partition('::')[0]
        if rel not in closure or not memo:
            continue
        mod = repo.modules[rel]
        for call in calls_in(fn):
            f = call.func
            nm = f.attr if isinstance(f, ast.Attribute) else (f.id if isinstance(f, ast.Name) else None)
            if nm not in memo:
                continue
            sites += 1
            mq, dec = memo[nm]
            par = mod.parents.get(id(call))
            names = set()
            if isinstance(par, ast.Assign) and par.value is call:
                for t in par.targets:
                    if isinstance(t, ast.Name):
                        names.add(t.id)
            if isinstance(par, ast.Attribute) and par.attr in _LIST_MUTATORS:
                gp = mod.parents.get(id(par))
                if isinstance(gp, ast.Call) and gp.func is par:
                    bad += 1
                    ctx.bad(rule, qual, 'result of memoised %s mutated: %s' % (nm, U(gp)[:60]),
                            '%s is decorated with %s, which returns the cached object itself; mutating it changes the '
                            'answer given to every later call with the same arguments' % (mq, dec), node=gp)
            if not names:
                continue
            for n in walk_local(fn):
                hit = None
                if (isinstance(n, ast.Call) and isinstance(n.func, ast.Attribute) and n.func.attr in _LIST_MUTATORS
                        and isinstance(n.func.value, ast.Name) and n.func.value.id in names):
                    hit = n
                elif (isinstance(n, ast.Subscript) and isinstance(n.ctx, (ast.Store, ast.Del))
                      and isinstance(n.value, ast.Name) and n.value.id in names):
                    hit = n
                elif isinstance(n, ast.AugAssign) and isinstance(n.target, ast.Name) and n.target.id in names:
                    hit = n
                if hit is not None:
                    bad += 1
                    ctx.bad(rule, qual, 'result of memoised %s mutated: %s' % (nm, U(hit)[:60]),
                            '%s is decorated with %s, which returns the cached object itself; mutating it in place '
                            'changes the answer given to every later call with the same arguments (the result then '
                            'depends on which inputs were processed before)' % (mq, dec), node=hit)
    if not bad:
        ctx.ok(rule, anchor, 'no memoised function result is mutated in place by a caller',
               {'functions_scanned': n_funcs, 'memoised_functions': sorted(q for q, _ in memo.values()),
                'call_sites_of_memoised': sites})


# ---------------------------------------------------------------------------------------------
# set-order rule (seed C15-e): the iteration order of a set of strings differs between interpreter processes
def _is_set_ctor(v):
    return isinstance(v, (ast.Set, ast.SetComp)) or (isinstance(v, ast.Call) and call_name(v) in ('set', 'frozenset'))


def set_order_sites(fn):
    """Sites in `fn` where the (process-dependent) order of a set becomes the order of a sequence.

    A set is recognised by construction: every assignment target (any l-value text: x, x[k][l], self.a) that receives
    set()/{...}/{.. for ..}; a consumer is list(T)/tuple(T)/enumerate(T)/iter(T)/'sep'.join(T)/for .. in T with the same
    l-value text T, or the construction itself in that position.  sorted(T) is order-free and not a consumer."""
    set_lvalues = set()
    for n in walk_local(fn):
        if isinstance(n, ast.Assign) and _is_set_ctor(n.value):
            for t in n.targets:
                set_lvalues.add(U(t))
    out = []

    def is_set(e):
        return _is_set_ctor(e) or U(e) in set_lvalues
    for n in walk_local(fn):
        its = []
        if isinstance(n, (ast.For, ast.comprehension)):
            its.append(n.iter)
        if isinstance(n, ast.Call) and call_name(n) in ('list', 'tuple', 'enumerate', 'iter', 'next') and n.args:
            its.append(n.args[0])
        if isinstance(n, ast.Call) and isinstance(n.func, ast.Attribute) and n.func.attr in ('join', 'extend') and n.args:
            its.append(n.args[0])
        if isinstance(n, ast.Starred):
            its.append(n.value)
        for it in its:
            if is_set(it):
                out.append((n, it))
    return out, sorted(set_lvalues)


def no_set_order(ctx, rule, rel, floor, what, why):
    """No function of module `rel` turns the order of a set into the order of a sequence."""
    m = ctx.repo.mod(rel)
    bad = False
    nfn = 0
    for lname, fn in m.funcs.items():
        nfn += 1
        q = rel + '::' + lname
        ctx.stats['functions'].add(q)
        sites, lv = set_order_sites(fn)
        for node, it in sites:
            bad = True
            ctx.bad(rule, q, 'order of a set becomes the order of %s: %s' % (what, U(node)[:70]), why, {'set_lvalues': lv}, node)
    if ctx.floor(rule, rel, nfn, floor, 'functions in ' + rel) and not bad:
        ctx.ok(rule, rel, 'no sequence of %s takes its order from a set (%d functions)' % (what, nfn))


# ---------------------------------------------------------------------------------------------
def queue_init_modes(ctx, qual):
    """Which calls in PcfgQueue.__init__ run for every base structure in a NEW session and in a RESTORED one.

    Finds the loops over self.pcfg.initalize_base_structures() (directly or through a local), and for every call in their
    bodies whose first argument is the loop variable evaluates its path conditions (from the function entry) under the two
    modes save_config is None / is not None (tests on save_config, or on a local bound once to such a test).
    Returns {'new': [call names], 'restore': [call names], 'unknown': [condition texts]}."""
    fn = ctx.fn(qual)
    mod = ctx.repo.modules[qual.partition('::')[0]]
    stores = stores_in(fn)
    ps = params(fn)
    sc = 'save_config' if 'save_config' in ps else None
    out = {'new': [], 'restore': [], 'unknown': []}
    if sc is None:
        out['unknown'].append('no save_config parameter')
        return out

    class Unk(Exception):
        pass

    def ev(t, restoring):
        if isinstance(t, ast.UnaryOp) and isinstance(t.op, ast.Not):
            return not ev(t.operand, restoring)
        if isinstance(t, ast.BoolOp):
            vs = [ev(v, restoring) for v in t.values]
            return all(vs) if isinstance(t.op, ast.And) else any(vs)
        if isinstance(t, ast.Compare) and len(t.ops) == 1 and U(t.left) == sc and const(t.comparators[0]) is None:
            if isinstance(t.ops[0], (ast.Is, ast.Eq)):
                return not restoring
            if isinstance(t.ops[0], (ast.IsNot, ast.NotEq)):
                return restoring
        if isinstance(t, ast.Name):
            if t.id == sc:
                return restoring
            defs = [v for s_, v in stores.get(t.id, []) if v is not None]
            if len(defs) == 1:
                return ev(defs[0], restoring)
        raise Unk(U(t))
    for n in walk_local(fn):
        if not isinstance(n, ast.For) or not isinstance(n.target, ast.Name):
            continue
        it = expand(fn, n.iter, stores)
        # self.pcfg, or the parameter it was bound from (`self.pcfg = pcfg` and pcfg is not re-bound)
        aliases = {'self.pcfg.initalize_base_structures'}
        for p_ in ps:
            if any(isinstance(s_, ast.Assign) and len(s_.targets) == 1 and U(s_.targets[0]) == 'self.pcfg' and U(s_.value) == p_ for s_ in fn.body) \
                    and not stores.get(p_):
                aliases.add(p_ + '.initalize_base_structures')
        if not (isinstance(it, ast.Call) and call_name(it) in aliases):
            continue
        tv = n.target.id
        if any(isinstance(x, (ast.Break, ast.Return)) for b in n.body for x in ast.walk(b)):
            out['unknown'].append('loop over the base structures leaves early')
            continue
        for c in calls_in(n):
            args = [U(a) for a in c.args]
            if not args:
                continue
            first = args[0]
            if call_name(c) == 'heapq.heappush' and len(args) == 2 and args[1] == 'QueueItem(%s)' % tv:
                name = 'push'
            elif first == tv and call_name(c) in ('self.insert_queue', 'self.restore_base_item', 'self.pcfg.restore_prob_order'):
                name = call_name(c)
            else:
                continue
            st = c
            while st is not None and not isinstance(st, ast.stmt):
                st = mod.parents.get(id(st))
            inner = [(t, pol) for t, pol in path_conditions(mod, st, stop=n)
                     if any(isinstance(x, ast.Name) and x.id == tv for x in ast.walk(expand(fn, t, stores)))]
            if inner and name in ('self.restore_base_item', 'self.pcfg.restore_prob_order', 'self.insert_queue', 'push'):
                out.setdefault('per_item', []).append('%s only if %s' % (name, ' and '.join(('' if pol else 'not ') + '(%s)' % U(t) for t, pol in inner)))
                continue
            try:
                conds = path_conditions(mod, st)
                for restoring in (False, True):
                    if all(ev(t, restoring) == pol for t, pol in conds):
                        out['restore' if restoring else 'new'].append(name)
            except Unk as u:
                out['unknown'].append(str(u))
    return out


def interval_guard(tests, var, lo, hi):
    """Does the disjunction of the guard tests reject exactly the values of `var` outside [lo, hi]?  Decided in the ordering
    domain over the five consistent orderings of var against lo < hi (plus the three against lo == hi), whatever the spelling
    (chained comparison, negated conjunction, two separate guards ...).  Returns 'ok', 'wrong' or 'unknown'; var / lo / hi are
    spellings or tuples of equivalent spellings."""
    from ..order import Terms, eval_cond, LT, EQ, GT
    terms = Terms()
    for sp, t in ((var, 'v'), (lo, 'lo'), (hi, 'hi')):
        for x in ((sp,) if isinstance(sp, str) else sp):
            terms.add(x, t)
    cases = [  # (v?lo, v?hi, lo?hi) -> rejected
        ((LT, LT, LT), True), ((EQ, LT, LT), False), ((GT, LT, LT), False), ((GT, EQ, LT), False), ((GT, GT, LT), True),
        ((LT, LT, EQ), True), ((EQ, EQ, EQ), False), ((GT, GT, EQ), True)]
    verdict = 'ok'
    for (a, b, c), want in cases:
        sigma = {('v', 'lo'): a, ('v', 'hi'): b, ('lo', 'hi'): c}
        vals = [eval_cond(t, sigma, terms) for t in tests]
        got = True if any(v is True for v in vals) else (False if all(v is False for v in vals) else None)
        if got is None:
            return 'unknown'
        if got != want:
            verdict = 'wrong'
    return verdict


_MUTATORS = {'append', 'extend', 'insert', 'remove', 'pop', 'clear', 'sort', 'reverse', 'add', 'discard', 'update', 'setdefault',
             'popitem', 'appendleft', 'popleft', 'subtract', '__setitem__', '__delitem__'}
_MUTATING_FUNCS = {'heapq.heappush', 'heapq.heappop', 'heapq.heapify', 'heapq.heapreplace', 'heapq.heappushpop', 'bisect.insort',
                   'bisect.insort_left', 'bisect.insort_right', 'random.shuffle'}
_READ_ONLY_FUNCS = {'len', 'sorted', 'enumerate', 'sum', 'min', 'max', 'list', 'set', 'tuple', 'dict', 'str', 'zip', 'iter', 'any', 'all',
                    'isinstance', 'print', 'range', 'reversed', 'frozenset', 'repr', 'bool', 'map', 'filter', 'copy.copy',
                    'copy.deepcopy', 'json.dumps', 'heapq.nsmallest', 'heapq.nlargest'}


def builds_mutable(val):
    return isinstance(val, (ast.Dict, ast.List, ast.Set, ast.ListComp, ast.DictComp, ast.SetComp)) or \
        (isinstance(val, ast.Call) and (call_name(val) or '').rpartition('.')[2] in ('dict', 'list', 'set', 'Counter', 'defaultdict',
                                                                                   'OrderedDict', 'deque', 'bytearray'))


def _place_uses(root, match, resolve=None, depth=2):
    """How the code under `root` treats the object denoted by expressions for which match(node) holds:
    ('mutated' | 'escapes' | 'read-only', node).  A call of a repository function is followed into the parameter (bounded)."""
    verdict, where = 'read-only', None
    parents = {}
    for n in ast.walk(root):
        for c in ast.iter_child_nodes(n):
            parents[id(c)] = n
    for n in ast.walk(root):
        if not match(n):
            continue
        par = parents.get(id(n))
        if isinstance(par, ast.Attribute) and par.attr in _MUTATORS and isinstance(parents.get(id(par)), ast.Call) \
                and parents[id(par)].func is par:
            return 'mutated', par
        if isinstance(par, ast.Subscript) and par.value is n and isinstance(par.ctx, (ast.Store, ast.Del)):
            return 'mutated', par
        if isinstance(par, ast.AugAssign) and par.target is n:
            return 'mutated', par
        if isinstance(par, ast.Call) and n in par.args:
            cn = call_name(par) or ''
            if cn in _MUTATING_FUNCS:
                return 'mutated', par
            if cn in _READ_ONLY_FUNCS:
                continue
            callee = resolve(par) if resolve else None
            if callee is not None and depth > 0:
                ps = [a.arg for a in callee.args.args]
                k = par.args.index(n)
                if isinstance(par.func, ast.Attribute) and ps and ps[0] in ('self', 'cls'):
                    k += 1
                if k < len(ps):
                    pn = ps[k]
                    v2, w2 = _place_uses(callee, lambda x: isinstance(x, ast.Name) and x.id == pn and isinstance(x.ctx, ast.Load),
                                         resolve, depth - 1)
                    if v2 == 'mutated':
                        return 'mutated', par
                    if v2 == 'read-only':
                        continue
            if verdict == 'read-only':
                verdict, where = 'escapes', par
        # nested containers: place[k].append(..) / place[k][j] = ..
        if isinstance(par, ast.Subscript) and par.value is n and isinstance(par.ctx, ast.Load):
            gp = parents.get(id(par))
            if (isinstance(gp, ast.Attribute) and gp.attr in _MUTATORS) or \
                    (isinstance(gp, ast.Subscript) and gp.value is par and isinstance(gp.ctx, (ast.Store, ast.Del))):
                return 'mutated', gp
    return verdict, where


def _attr_uses(repo, cls, name):
    """How the repository treats the attribute <object>.<name> of instances of `cls`:
    ('rebound-in-init' | 'mutated' | 'escapes' | 'read-only', node)."""
    for fn in cls.body:
        if isinstance(fn, (ast.FunctionDef, ast.AsyncFunctionDef)) and fn.name == '__init__' and fn.args.args:
            spell = '%s.%s' % (fn.args.args[0].arg, name)
            for st in fn.body:
                if isinstance(st, (ast.Assign, ast.AnnAssign)):
                    tg = st.targets if isinstance(st, ast.Assign) else [st.target]
                    if any(U(t) == spell for t in tg) and getattr(st, 'value', None) is not None:
                        return 'rebound-in-init', st
    verdict, where = 'read-only', None
    for rel, m in sorted(repo.modules.items()):
        def resolve(call, m=m):
            cn = call_name(call) or ''
            return m.funcs.get(cn.rpartition('.')[2]) if cn.rpartition('.')[0] in ('', 'self') else None
        v, w = _place_uses(m.tree, lambda x: isinstance(x, ast.Attribute) and x.attr == name and isinstance(x.ctx, ast.Load), resolve)
        if v == 'mutated':
            return v, w
        if v == 'escapes' and verdict == 'read-only':
            verdict, where = v, w
    return verdict, where


def no_shared_class_state(ctx, rule, prefixes, floor, why):
    """Per-object state stays per object: a mutable container bound in a class body is one object shared by every instance.  It is a
    violation when the methods of the class change it in place through self (and __init__ does not re-bind it first), undecided
    when it is handed to a function the analysis does not know, and harmless when it is only read (a constant table)."""
    n = 0
    bad = False
    for rel, m in sorted(ctx.repo.modules.items()):
        if not rel.startswith(tuple(prefixes)):
            continue
        for cname, cls in m.classes.items():
            for st in cls.body:
                n += 1
                tgts, val = [], None
                if isinstance(st, ast.Assign):
                    tgts, val = [t.id for t in st.targets if isinstance(t, ast.Name)], st.value
                elif isinstance(st, ast.AnnAssign) and isinstance(st.target, ast.Name) and st.value is not None:
                    tgts, val = [st.target.id], st.value
                if val is None or not builds_mutable(val):
                    continue
                for tgt in tgts:
                    verdict, where = _attr_uses(ctx.repo, cls, tgt)
                    q = '%s::%s' % (rel, cname)
                    if verdict == 'mutated':
                        bad = True
                        ctx.bad(rule, q, 'class-level mutable attribute %s = %s, changed in place by %s' % (tgt, U(val)[:30], U(where)[:60]),
                                why, None, st, firm=True)
                    elif verdict == 'escapes':
                        bad = True
                        ctx.unk(rule, q, 'class-level mutable attribute %s is passed to %s, which may or may not change it' % (tgt, U(where)[:60]))
    if ctx.floor(rule, prefixes[0], n, floor, 'class-body statements in %s' % ', '.join(prefixes)) and not bad:
        ctx.ok(rule, prefixes[0], 'no class binds at class level a mutable object that its methods change in place')


def no_aliased_containers(ctx, rule, prefixes, floor, why):
    """Distinct stores get distinct containers: `a[k1] = a[k2] = []` binds ONE new list to both places, so whatever is appended
    through one is seen through the other.  Flagged when a freshly built mutable container is the value of an assignment with two
    or more targets that are persistent places (subscripts or attributes); a local name next to ONE place (`sec = g[k] = []`) is
    just an alias of that place."""
    n = 0
    bad = False
    for rel, m in sorted(ctx.repo.modules.items()):
        if not rel.startswith(tuple(prefixes)):
            continue
        for node in ast.walk(m.tree):
            if not isinstance(node, ast.Assign):
                continue
            n += 1
            if builds_mutable(node.value) and sum(1 for t in node.targets if not isinstance(t, ast.Name)) >= 2:
                bad = True
                fn = enclosing_func(m, node)
                q = '%s::%s' % (rel, next((k for k, f in m.funcs.items() if f is fn), ''))
                ctx.bad(rule, q, 'one container for several places: %s' % U(node)[:80], why, None, node, firm=True)
            # `[{}] * n` / `[[]] * n`: sequence repetition copies the REFERENCE - all n slots are one container (seed C10-fb)
            v = node.value
            if isinstance(v, ast.BinOp) and isinstance(v.op, ast.Mult):
                for side, other in ((v.left, v.right), (v.right, v.left)):
                    if isinstance(side, (ast.List, ast.Tuple)) and any(builds_mutable(e) for e in side.elts) \
                            and not (const(other) in (0, 1)):
                        bad = True
                        fn = enclosing_func(m, node)
                        q = '%s::%s' % (rel, next((k for k, f in m.funcs.items() if f is fn), ''))
                        ctx.bad(rule, q, 'one container repeated into every slot: %s' % U(node)[:80], why, None, node, firm=True)
    if ctx.floor(rule, prefixes[0], n, floor, 'assignments in %s' % ', '.join(prefixes)) and not bad:
        ctx.ok(rule, prefixes[0], 'no freshly built container is bound to two places by one chained assignment (%d assignments)' % n)


def negated_slice_bounds(ctx, rule, prefixes, lower_bounds, floor, why):
    """`x[-e:]` / `x[:-e]` mean "the last e" / "all but the last e" only for e >= 1: for e == 0 they are the WHOLE string / the EMPTY
    string.  Every slice bound that is meant to count from the end - its linear form has only negative coefficients, e.g. `-e`,
    `-(n - 1)`, `1 - n` - is evaluated at the tabulated (attained) minima of its quantities: if the bound can reach 0 there (or
    become positive) it is a violation (the tabulated minimum is a supported configuration), < 0 discharges, an untabulated
    quantity is undecided."""
    n = 0
    bad = False
    for rel, m in sorted(ctx.repo.modules.items()):
        if not rel.startswith(tuple(prefixes)):
            continue
        for q_, fn in sorted(m.funcs.items()):
            stores = stores_in(fn)
            for node in walk_local(fn):
                if not isinstance(node, ast.Slice):
                    continue
                n += 1
                for b in (node.lower, node.upper):
                    if b is None or const(b) is not NOCONST:
                        continue
                    e = expand(fn, b, stores)
                    l = lin(e)
                    q = '%s::%s' % (rel, q_)
                    neg_form = isinstance(b, ast.UnaryOp) and isinstance(b.op, ast.USub)
                    if l is None:
                        if neg_form:
                            bad = True
                            ctx.unk(rule, q, 'slice bound %s: not a linear expression' % U(e)[:60])
                        continue
                    if not l.t or not all(c < 0 for c in l.t.values()):
                        continue            # not a from-the-end bound
                    if any(a not in lower_bounds for a in l.t):
                        if neg_form or l.c > 0:
                            bad = True
                            ctx.unk(rule, q, 'slice bound %s: no lower bound known for %s' % (U(e)[:60], sorted(a for a in l.t if a not in lower_bounds)))
                        continue
                    top = l.c + sum(c * lower_bounds[a] for a, c in l.t.items())
                    if top < 0:
                        ctx.ok(rule, q, 'slice bound %s is at most %s' % (U(e), top))
                    else:
                        bad = True
                        ctx.bad(rule, q, 'slice bound %s can be %s' % (U(e)[:60], '-0' if top == 0 else 'non-negative'), why,
                                {'maximum': top, 'table': lower_bounds}, node)
    if ctx.floor(rule, prefixes[0], n, floor, 'slices in %s' % ', '.join(prefixes)) and not bad:
        ctx.ok(rule, prefixes[0], 'no from-the-end slice bound can reach 0 (%d slices)' % n)


def no_mutable_defaults(ctx, rule, prefixes, floor, why):
    """A default argument is evaluated once, when the function is defined: a list / dict / set default that the function keeps
    (stores in an attribute, returns) or changes in place is shared by every call that omits the argument.  Violation when the
    parameter is stored into an attribute / container or mutated in place; harmless when it is only read."""
    n = 0
    bad = False
    for rel, m in sorted(ctx.repo.modules.items()):
        if not rel.startswith(tuple(prefixes)):
            continue
        for lname, fn in sorted(m.funcs.items()):
            a = fn.args
            pos = a.posonlyargs + a.args
            pairs = list(zip(pos[len(pos) - len(a.defaults):], a.defaults)) + [(p_, d) for p_, d in zip(a.kwonlyargs, a.kw_defaults) if d is not None]
            n += len(pos) + len(a.kwonlyargs)
            for p_, d in pairs:
                if not builds_mutable(d):
                    continue
                name = p_.arg
                q = '%s::%s' % (rel, lname)
                verdict, where = _place_uses(fn, lambda x: isinstance(x, ast.Name) and x.id == name and isinstance(x.ctx, ast.Load))
                kept = [s_ for s_ in ast.walk(fn) if isinstance(s_, ast.Assign) and isinstance(s_.value, ast.Name) and s_.value.id == name
                        and any(isinstance(t, (ast.Attribute, ast.Subscript)) for t in s_.targets)]
                if verdict == 'mutated' or kept:
                    bad = True
                    ctx.bad(rule, q, 'mutable default argument %s=%s is %s' % (name, U(d), 'kept: ' + U(kept[0])[:50] if kept else 'changed in place'),
                            why, None, kept[0] if kept else where, firm=True)
                elif verdict == 'escapes':
                    bad = True
                    ctx.unk(rule, q, 'mutable default argument %s=%s is passed to %s' % (name, U(d), U(where)[:50]))
    if ctx.floor(rule, prefixes[0], n, floor, 'parameters in %s' % ', '.join(prefixes)) and not bad:
        ctx.ok(rule, prefixes[0], 'no mutable default argument is kept or changed in place (%d parameters)' % n)


_LAZY_CALLS = ('map', 'filter', 'zip', 'iter', 'enumerate', 'reversed', 'csv.reader', 'itertools.chain', 'itertools.islice')


def no_generator_reuse(ctx, rule, prefixes, floor, why):
    """A generator (or any one-shot iterator) bound to a name yields each element once: a second loop over the same name sees only
    what the first one left - nothing, when the first loop can run to its end.  Violation: a local bound once to a generator
    expression / map / filter / zip / iter / enumerate that is the iterable of two or more loops (or comprehensions) of which the
    first can be left normally (not only by break / return)."""
    n = 0
    bad = False
    for rel, m in sorted(ctx.repo.modules.items()):
        if not rel.startswith(tuple(prefixes)):
            continue
        for lname, fn in sorted(m.funcs.items()):
            stores = stores_in(fn)
            for nm, lst in stores.items():
                defs = [v for s_, v in lst if v is not None]
                if len(lst) != 1 or len(defs) != 1:
                    continue
                v = defs[0]
                lazy = isinstance(v, ast.GeneratorExp) or (isinstance(v, ast.Call) and (call_name(v) or '') in _LAZY_CALLS)
                if not lazy:
                    continue
                n += 1
                loops = [x for x in walk_local(fn) if isinstance(x, ast.For) and isinstance(x.iter, ast.Name) and x.iter.id == nm]
                comps = [g for x in walk_local(fn) if isinstance(x, (ast.ListComp, ast.SetComp, ast.DictComp, ast.GeneratorExp))
                         for g in x.generators if isinstance(g.iter, ast.Name) and g.iter.id == nm]
                if len(loops) + len(comps) < 2:
                    continue
                q = '%s::%s' % (rel, lname)
                first = min(loops, key=lambda l: l.lineno) if loops else None
                # can the first loop end by exhaustion?  (a loop whose body always leaves by break/return on its first pass cannot)
                can_exhaust = True
                if first is not None:
                    from ..core import _ends_with_jump
                    can_exhaust = not _ends_with_jump(first.body) or any(isinstance(b_, ast.Continue) for b_ in ast.walk(first))
                if can_exhaust:
                    bad = True
                    ctx.bad(rule, q, 'one-shot iterator %s = %s is looped over %d times' % (nm, U(v)[:50], len(loops) + len(comps)),
                            why, None, (loops + [None])[1] if len(loops) > 1 else (first or fn), firm=True)
                else:
                    bad = True
                    ctx.unk(rule, q, 'one-shot iterator %s is consumed by several loops' % nm)
    if ctx.floor(rule, prefixes[0], n, floor, 'names bound to one-shot iterators in %s' % ', '.join(prefixes)) and not bad:
        ctx.ok(rule, prefixes[0], 'no one-shot iterator is looped over twice (%d bound)' % n)


def inner_counters_reset(ctx, rule, prefixes, floor, why):
    """A counter-driven `while i < n:` loop nested in another loop scans its table from the start on EVERY pass of the outer loop: the
    plain assignment that initialises the counter sits inside the outer loop.  Hoisted out of it (seed C11-fb: `cur_index = 0` moved in
    front of `while cur_level >= 0`), the second pass resumes where the first one stopped - the entries before that point are never
    tried at the lower level, silently.  Counted: while loops nested in a loop whose test reads a local name the body advances."""
    n = 0
    bad = False
    for rel, m in sorted(ctx.repo.modules.items()):
        if not rel.startswith(tuple(prefixes)):
            continue
        for q_, fn in sorted(m.funcs.items()):
            plain = {}
            for st in walk_local(fn):
                if isinstance(st, ast.Assign):
                    for t in st.targets:
                        for e in (t.elts if isinstance(t, (ast.Tuple, ast.List)) else [t]):
                            if isinstance(e, ast.Name):
                                plain.setdefault(e.id, []).append(st)
            for outer in walk_local(fn):
                if not isinstance(outer, (ast.While, ast.For)):
                    continue
                inside_outer = {id(x) for st in outer.body for x in ast.walk(st)}
                for inner in walk_local(fn):
                    if not isinstance(inner, ast.While) or id(inner) not in inside_outer:
                        continue
                    # only the DIRECTLY enclosing loop matters
                    if any(isinstance(mid, (ast.While, ast.For)) and mid is not outer and mid is not inner
                           and id(mid) in inside_outer and id(inner) in {id(x) for st in mid.body for x in ast.walk(st)}
                           for mid in walk_local(fn)):
                        continue
                    tested = {x.id for x in ast.walk(inner.test) if isinstance(x, ast.Name)}
                    in_inner = {id(x) for st in inner.body for x in ast.walk(st)}
                    adv = set()
                    for st in ast.walk(inner):
                        if isinstance(st, ast.AugAssign) and isinstance(st.target, ast.Name) and st.target.id in tested:
                            adv.add(st.target.id)
                        elif isinstance(st, ast.Assign) and id(st) in in_inner and len(st.targets) == 1 and isinstance(st.targets[0], ast.Name) \
                                and st.targets[0].id in tested and any(isinstance(x, ast.Name) and x.id == st.targets[0].id for x in ast.walk(st.value)):
                            adv.add(st.targets[0].id)
                    for c in sorted(adv):
                        n += 1
                        inits = [st for st in plain.get(c, []) if id(st) not in in_inner]
                        if not inits:
                            continue        # a parameter / attribute-fed counter: nothing to compare
                        q = '%s::%s' % (rel, q_)
                        ctx.stats['functions'].add(q)
                        if not any(id(st) in inside_outer for st in inits):
                            bad = True
                            ctx.bad(rule, q, 'counter %s of the nested loop `while %s` is initialised only outside the enclosing loop (%s)'
                                    % (c, U(inner.test)[:40], U(inits[0])[:40]), why, None, inits[0], firm=True)
    if ctx.floor(rule, prefixes[0], n, floor, 'counter-driven nested while loops in %s' % ', '.join(prefixes)) and not bad:
        ctx.ok(rule, prefixes[0], 'every counter of a nested while loop is (re)initialised inside the enclosing loop (%d loops)' % n)


def _returns_none_and_value(fn):
    """(nodes that return None explicitly, nodes that return something else) of fn itself."""
    nones, vals = [], []
    for r in walk_local(fn):
        if isinstance(r, ast.Return):
            if r.value is None or (isinstance(r.value, ast.Constant) and r.value.value is None):
                nones.append(r)
            else:
                vals.append(r)
    return nones, vals


def _guarded_not_none(mod, fn, use, v):
    """Is the expression node `use` (a use of local v that needs a non-None object) evaluated only when v is known to be truthy /
    not None?  Looks at the enclosing IfExp / `and` chain, then at the path conditions of the enclosing statement."""
    def says_present(test, pol):
        t = test
        while isinstance(t, ast.UnaryOp) and isinstance(t.op, ast.Not):
            t, pol = t.operand, not pol
        if isinstance(t, ast.Name) and t.id == v:
            return pol
        if isinstance(t, ast.Compare) and len(t.ops) == 1 and isinstance(t.left, ast.Name) and t.left.id == v \
                and isinstance(t.comparators[0], ast.Constant) and t.comparators[0].value is None:
            return (isinstance(t.ops[0], ast.IsNot) and pol) or (isinstance(t.ops[0], ast.Is) and not pol) \
                or (isinstance(t.ops[0], ast.NotEq) and pol) or (isinstance(t.ops[0], ast.Eq) and not pol)
        if isinstance(t, ast.BoolOp) and isinstance(t.op, ast.And) and pol:
            return any(says_present(x, True) for x in t.values)
        if isinstance(t, ast.BoolOp) and isinstance(t.op, ast.Or) and not pol:
            return any(says_present(x, False) for x in t.values)
        return False
    cur = use
    while True:
        par = mod.parents.get(id(cur))
        if par is None or isinstance(par, ast.stmt):
            break
        if isinstance(par, ast.IfExp):
            if cur is par.body and says_present(par.test, True):
                return True
            if cur is par.orelse and says_present(par.test, False):
                return True
        if isinstance(par, ast.BoolOp) and isinstance(par.op, ast.And):
            i = next(k for k, x in enumerate(par.values) if x is cur)
            if any(says_present(x, True) for x in par.values[:i]):
                return True
        cur = par
    stmt = par if par is not None else None
    if stmt is None:
        return False
    if isinstance(stmt, (ast.If, ast.While)) and any(x is use for x in ast.walk(stmt.test)):
        pass
    return any(says_present(t, p) for t, p in path_conditions(mod, stmt))


def optional_results_checked(ctx, rule, prefixes, floor, why):
    """A helper that can `return None` next to a real result hands its callers an OPTIONAL value: every caller that binds the result
    to a local and then iterates over it, subscripts it, calls a method on it or tests membership in it must do so only where the
    value is known to be present (`if v:`, `v is not None`, `x if v else y`, `v and ...`, or an earlier `if not v: continue`).  A use
    without that raises TypeError for exactly the inputs that take the None path (seed C05-fa: find_keyboard_row_column returns
    None for blanks; detect_keyboard_walk guards `.copy()` but still runs `for board in pos_list` and `key in pos_list`: parse()
    raises for every password with a space)."""
    n = 0
    bad = False
    optional = {}
    for rel, m in sorted(ctx.repo.modules.items()):
        if not rel.startswith(tuple(prefixes)):
            continue
        for lname, fn in m.funcs.items():
            if '.' in lname:
                continue
            nones, vals = _returns_none_and_value(fn)
            if nones and vals:
                optional[lname] = (rel, fn)
    for rel, m in sorted(ctx.repo.modules.items()):
        if not rel.startswith(tuple(prefixes)):
            continue
        for lname, fn in m.funcs.items():
            for st in walk_local(fn):
                if not (isinstance(st, ast.Assign) and len(st.targets) == 1 and isinstance(st.targets[0], ast.Name)
                        and isinstance(st.value, ast.Call) and (call_name(st.value) or '').rpartition('.')[2] in optional):
                    continue
                v = st.targets[0].id
                callee = (call_name(st.value) or '').rpartition('.')[2]
                n += 1
                q = '%s::%s' % (rel, lname)
                ctx.stats['functions'].add(q)
                for x in walk_local(fn):
                    use = None
                    if isinstance(x, (ast.For, ast.comprehension)) and isinstance(x.iter, ast.Name) and x.iter.id == v:
                        use = x.iter
                    elif isinstance(x, ast.Compare) and any(isinstance(o, (ast.In, ast.NotIn)) and isinstance(c, ast.Name) and c.id == v
                                                            for o, c in zip(x.ops, x.comparators)):
                        use = x
                    elif isinstance(x, ast.Subscript) and isinstance(x.value, ast.Name) and x.value.id == v:
                        use = x
                    elif isinstance(x, ast.Attribute) and isinstance(x.value, ast.Name) and x.value.id == v:
                        use = x
                    elif isinstance(x, ast.Call) and call_name(x) in ('len', 'iter', 'sorted', 'list', 'set', 'tuple', 'enumerate') and x.args \
                            and isinstance(x.args[0], ast.Name) and x.args[0].id == v:
                        use = x
                    if use is None:
                        continue
                    tgt = use
                    if isinstance(x, ast.For):
                        # the iterable of a for statement: conditions of the statement itself
                        if any(_says(t, p, v) for t, p in path_conditions(m, x)):
                            continue
                    elif _guarded_not_none(m, fn, tgt, v):
                        continue
                    bad = True
                    ctx.bad(rule, q, '%s = %s(..) may be None (%s has a `return None` path) and is used unguarded: %s'
                            % (v, callee, callee, U(x if not isinstance(x, ast.For) else x.iter)[:50]), why, None,
                            x if hasattr(x, 'lineno') else st, firm=True)
    if ctx.floor(rule, prefixes[0], n + len(optional) + 1, floor, 'bound results of helpers (optional helpers: %s)' % sorted(optional)) and not bad:
        ctx.ok(rule, prefixes[0], 'every local bound to the result of a helper that can return None (%s) is used only where it is '
               'known to be present (%d call sites)' % (sorted(optional) or 'none on this tree', n))


def _says(test, pol, v):
    t = test
    while isinstance(t, ast.UnaryOp) and isinstance(t.op, ast.Not):
        t, pol = t.operand, not pol
    if isinstance(t, ast.Name) and t.id == v:
        return pol
    if isinstance(t, ast.Compare) and len(t.ops) == 1 and isinstance(t.left, ast.Name) and t.left.id == v \
            and isinstance(t.comparators[0], ast.Constant) and t.comparators[0].value is None:
        return (isinstance(t.ops[0], (ast.IsNot, ast.NotEq)) and pol) or (isinstance(t.ops[0], (ast.Is, ast.Eq)) and not pol)
    if isinstance(t, ast.BoolOp) and isinstance(t.op, ast.And) and pol:
        return any(_says(x, True, v) for x in t.values)
    if isinstance(t, ast.BoolOp) and isinstance(t.op, ast.Or) and not pol:
        return any(_says(x, False, v) for x in t.values)
    return False


_KEEPERS = {'append', 'appendleft', 'add', 'insert', 'put', 'put_nowait', 'heappush', 'insert_queue', 'extend', 'setdefault'}


def no_reused_record(ctx, rule, prefixes, floor, why):
    """A record that is handed to something that keeps it is a NEW object each time: a dict / list built once in front of a loop,
    filled by item assignment inside the loop and, inside the same loop, appended / pushed / given to a callback parameter is ONE
    object - every holder sees the fields of the last pass (seed C01-fb: `child_item = {'base_prob': ..}` hoisted in front of the
    position loop of the restore walk, `child_item['pt'] = child; child_item['prob'] = ..; save_function(child_item)`: every restored
    queue entry ends up with the pre-terminal and probability of its last sibling - order inversions, duplicates and losses after
    a restore)."""
    n = 0
    bad = False
    for rel, m in sorted(ctx.repo.modules.items()):
        if not rel.startswith(tuple(prefixes)):
            continue
        for q_, fn in sorted(m.funcs.items()):
            ps = set(params(fn))
            for loop in walk_local(fn):
                if not isinstance(loop, (ast.For, ast.While)):
                    continue
                n += 1
                inside = {id(x) for st in loop.body for x in ast.walk(st)}
                # locals built as containers outside this loop and never re-bound inside it
                built = {}
                for st in walk_local(fn):
                    if isinstance(st, ast.Assign) and len(st.targets) == 1 and isinstance(st.targets[0], ast.Name):
                        nm = st.targets[0].id
                        if id(st) in inside:
                            built[nm] = None if nm not in built or built[nm] is not None else None
                            built[nm] = 'rebound'
                        elif builds_mutable(st.value) and built.get(nm) != 'rebound':
                            built[nm] = st
                for nm, st0 in built.items():
                    if st0 is None or st0 == 'rebound':
                        continue
                    writes = [x for x in walk_local(fn) if id(x) in inside and isinstance(x, ast.Assign)
                              and any(isinstance(t, ast.Subscript) and isinstance(t.value, ast.Name) and t.value.id == nm for t in x.targets)]
                    if not writes:
                        continue
                    for c in walk_local(fn):
                        if id(c) not in inside or not isinstance(c, ast.Call):
                            continue
                        if not any(isinstance(a, ast.Name) and a.id == nm for a in c.args):
                            continue
                        name = call_name(c) or ''
                        last = name.rpartition('.')[2]
                        recursive_keep = False
                        if last == q_.rpartition('.')[2]:
                            # handed to the function itself: kept when the parameter it arrives in is given to a keeper / a callback
                            plist = [p_ for p_ in params(fn) if p_ != 'self']
                            idx = next((k for k, a in enumerate(c.args) if isinstance(a, ast.Name) and a.id == nm), None)
                            pin = plist[idx] if idx is not None and idx < len(plist) else None
                            recursive_keep = pin is not None and any(
                                isinstance(c2, ast.Call) and ((call_name(c2) or '') in ps or (call_name(c2) or '').rpartition('.')[2] in _KEEPERS)
                                and any(isinstance(a, ast.Name) and a.id == pin for a in c2.args) for c2 in walk_local(fn))
                        if last in _KEEPERS or name in ps or recursive_keep:
                            bad = True
                            q = '%s::%s' % (rel, q_)
                            ctx.stats['functions'].add(q)
                            ctx.bad(rule, q, 'one %s (built before the loop: %s) is refilled and handed to %s on every pass'
                                    % (nm, U(st0)[:40], name), why, None, c, firm=True)
    if ctx.floor(rule, prefixes[0], n, floor, 'loops in %s' % ', '.join(prefixes)) and not bad:
        ctx.ok(rule, prefixes[0], 'no container built before a loop is refilled inside it and handed to a keeper or a callback (%d loops)' % n)
