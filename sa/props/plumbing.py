"""Plumbing rules shared by several properties: what the user asks for on the command line reaches the code that acts on it.

Every entry script (pcfg_guesser.py, trainer.py, password_scorer.py, prince_ling.py, edit_rules.py) parses its options into one
dictionary (`program_info`) that the rest of the script reads.  The rules below decide, per script:

  option_round_trip      an option whose argparse default is program_info[K] is stored back under K (never under another key), and
                         program_info[K] is stored from the option `K` was declared for (seed C14-ca: skip_case = args.skip_brute)
  options_not_rewritten  outside the parser no statement re-binds program_info[K] to a function of itself (seed C20-ca: the
                         ruleset name reduced to its basename - `--rule policies/Tiny` then edits Rules/Tiny)
  no_unflushed_exit      os._exit() - which skips the flush of buffered stdout - is not reachable (seed C09-ca)
  defaulted_getattr      getattr(x, '<name>', default) names an attribute some class of the repository defines (seed C19-ca: a
                         misspelt counter name always gives the default)
"""
import ast

from ..core import U, walk_local, calls_in, call_name, const, NOCONST, params, walk_stmts

ENTRY_SCRIPTS = ('pcfg_guesser.py', 'trainer.py', 'password_scorer.py', 'prince_ling.py', 'edit_rules.py')


# options that are parsed and deliberately not used (confirmed by reading; one line of reason each)
UNCONSUMED_OK = {}


def _info_key(node, info):
    """program_info['K'] -> 'K'"""
    if isinstance(node, ast.Subscript) and isinstance(node.value, ast.Name) and node.value.id == info and isinstance(const(node.slice), str):
        return const(node.slice)
    return None


def _dest_of(call):
    for k in call.keywords:
        if k.arg == 'dest' and isinstance(const(k.value), str):
            return const(k.value)
    longs = [const(a) for a in call.args if isinstance(const(a), str) and const(a).startswith('--')]
    if longs:
        return longs[0][2:].replace('-', '_')
    shorts = [const(a) for a in call.args if isinstance(const(a), str) and const(a).startswith('-')]
    if shorts:
        return shorts[0].lstrip('-').replace('-', '_')
    pos = [const(a) for a in call.args if isinstance(const(a), str)]
    return pos[0] if pos else None


def option_round_trip(ctx, rule, entries=ENTRY_SCRIPTS, floor=10):
    n = 0
    ok = True
    for rel in entries:
        q = rel + '::parse_command_line'
        if rel not in ctx.repo.modules or 'parse_command_line' not in ctx.repo.modules[rel].funcs:
            continue
        fn = ctx.repo.fn(q)
        ctx.stats['functions'].add(q)
        info = params(fn)[0] if params(fn) else 'program_info'
        default_key = {}        # dest -> K (the key the default comes from)
        dests = set()
        for c in calls_in(fn):
            if isinstance(c.func, ast.Attribute) and c.func.attr == 'add_argument':
                d = _dest_of(c)
                if d is None:
                    continue
                dests.add(d)
                for k in c.keywords:
                    if k.arg == 'default':
                        kk = _info_key(k.value, info)
                        if kk is not None:
                            default_key[d] = kk
        argsnames = {st.targets[0].id for st in walk_local(fn) if isinstance(st, ast.Assign) and len(st.targets) == 1
                     and isinstance(st.targets[0], ast.Name) and isinstance(st.value, ast.Call) and isinstance(st.value.func, ast.Attribute)
                     and st.value.func.attr == 'parse_args'}
        stored_from = {}        # K -> set(dest) read in the value stored under K
        for st in walk_local(fn):
            if isinstance(st, ast.Assign) and len(st.targets) == 1:
                K = _info_key(st.targets[0], info)
                if K is None:
                    continue
                used = {x.attr for x in ast.walk(st.value) if isinstance(x, ast.Attribute) and isinstance(x.value, ast.Name)
                        and x.value.id in argsnames}
                if used:
                    stored_from.setdefault(K, set()).update(used)
                    n += 1
                    for d in used:
                        if d in default_key and default_key[d] != K:
                            ok = False
                            ctx.bad(rule, q, "%s['%s'] = %s" % (info, K, U(st.value)[:50]),
                                    "the option --%s (default %s['%s']) is stored under the key of another option: what the user asks for "
                                    'with one flag switches the other' % (d, info, default_key[d]), {'dest': d}, st, firm=True)
                        elif d not in dests and dests:
                            ok = False
                            ctx.unk(rule, q, 'args.%s is read but no option of that name is declared' % d)
        # two keys fed by the same option while its own key is fed by nothing
        for d, K in default_key.items():
            if K not in stored_from and any(d in ds for ds in stored_from.values()):
                continue        # reported above as a mismatch
        # an option that is stored must be consumed: the key it is kept under is read somewhere else in the script (seed C16-fa
        # renamed dest and key of --all_lower to 'all_lower' while main() still hands program_info['skip_case'] - now a constant
        # False - to the grammar: the flag is silently ignored).  Undecided when the dictionary leaves the script as a whole.
        m = ctx.repo.modules[rel]
        read_keys = set()
        whole = False
        for lname, ofn in m.funcs.items():
            if ofn is fn or not isinstance(ofn, (ast.FunctionDef, ast.AsyncFunctionDef)):
                continue
            for x in walk_local(ofn):
                if isinstance(x, ast.Subscript) and isinstance(x.ctx, ast.Load) and isinstance(const(x.slice), str):
                    read_keys.add(const(x.slice))
                elif isinstance(x, ast.Call) and isinstance(x.func, ast.Attribute) and x.func.attr in ('get', 'pop') and x.args \
                        and isinstance(const(x.args[0]), str):
                    read_keys.add(const(x.args[0]))
                elif isinstance(x, ast.Call) and call_name(x) not in m.funcs:       # callees in this script are scanned themselves
                    for a in list(x.args) + [k.value for k in x.keywords]:
                        if isinstance(a, ast.Name) and a.id in ('program_info', info) or (isinstance(a, ast.Starred) and U(a.value) in ('program_info', info)):
                            whole = True
                    if any(k.arg is None and U(k.value) in ('program_info', info) for k in x.keywords):
                        whole = True
        for K in sorted(stored_from):
            if K in read_keys or K in UNCONSUMED_OK.get(rel, ()):
                continue
            if whole:
                continue        # the dictionary is handed on as a whole (trainer.py -> run_trainer): its readers are not in this script
            ok = False
            if True:
                ctx.bad(rule, q, "%s['%s'] is stored from the command line and read nowhere in %s" % (info, K, rel),
                        'an option that nothing consumes is silently ignored: the run behaves as if the flag had not been given '
                        '(and whatever main() reads instead keeps its built-in default)', {'stored_from': sorted(stored_from[K])},
                        fn, firm=True)
    if ctx.floor(rule, 'entry scripts', n, floor, 'options stored from the parsed command line') and ok:
        ctx.ok(rule, 'entry scripts', 'every option of the %d stored is kept under the key its default comes from' % n)


def options_not_rewritten(ctx, rule, entries=ENTRY_SCRIPTS, floor=8):
    n = 0
    ok = True
    for rel in entries:
        if rel not in ctx.repo.modules:
            continue
        m = ctx.repo.modules[rel]
        pq = 'parse_command_line'
        if pq not in m.funcs:
            continue
        pfn = m.funcs[pq]
        info = params(pfn)[0] if params(pfn) else 'program_info'
        option_keys = set()
        for st in walk_local(pfn):
            if isinstance(st, ast.Assign) and len(st.targets) == 1 and _info_key(st.targets[0], info) is not None:
                option_keys.add(_info_key(st.targets[0], info))
        n += len(option_keys)
        for lname, fn in m.funcs.items():
            if not isinstance(fn, (ast.FunctionDef, ast.AsyncFunctionDef)):
                continue
            q = rel + '::' + lname
            ctx.stats['functions'].add(q)
            names = set(params(fn)) | {'program_info'}
            for st in walk_local(fn):
                tg = st.targets[0] if isinstance(st, ast.Assign) and len(st.targets) == 1 else (st.target if isinstance(st, ast.AugAssign) else None)
                if tg is None or not (isinstance(tg, ast.Subscript) and isinstance(tg.value, ast.Name) and tg.value.id in names
                                      and isinstance(const(tg.slice), str) and const(tg.slice) in option_keys):
                    continue
                K = const(tg.slice)
                reads_self = isinstance(st, ast.AugAssign) or any(
                    isinstance(x, ast.Subscript) and isinstance(x.value, ast.Name) and x.value.id == tg.value.id and const(x.slice) == K
                    and x is not tg for x in ast.walk(st.value))
                if reads_self:
                    ok = False
                    ctx.bad(rule, q, "%s['%s'] re-bound to %s" % (tg.value.id, K, U(st.value)[:70]),
                            'the value the user gave is replaced by a function of itself before the tool acts on it: for some inputs the '
                            'tool now works on something else than what was named (a ruleset given by sub folder or path, ...)',
                            None, st, firm=True)
    if ctx.floor(rule, 'entry scripts', n, floor, 'option keys of the entry scripts') and ok:
        ctx.ok(rule, 'entry scripts', 'none of the %d option values is re-bound to a function of itself' % n)


def no_unflushed_exit(ctx, rule, entries=('pcfg_guesser.py', 'prince_ling.py', 'password_scorer.py'), floor=3):
    n = 0
    ok = True
    for rel in entries:
        if rel not in ctx.repo.modules:
            continue
        n += 1
        closure = ctx.resolver.closure([rel])
        for r2 in sorted(closure):
            m = ctx.repo.modules.get(r2)
            if m is None:
                continue
            for c in [x for x in ast.walk(m.tree) if isinstance(x, ast.Call)]:
                if U(c.func) in ('os._exit', '_exit'):
                    # flushed right before?
                    st = m.parents.get(id(c))
                    while st is not None and not isinstance(st, ast.stmt):
                        st = m.parents.get(id(st))
                    par = m.parents.get(id(st)) if st is not None else None
                    flushed = False
                    for field in ('body', 'orelse', 'finalbody'):
                        blk = getattr(par, field, None)
                        if isinstance(blk, list) and any(x is st for x in blk):
                            k = [j for j, x in enumerate(blk) if x is st][0]
                            flushed = any('sys.stdout.flush()' in U(b) for b in blk[:k])
                    if not flushed:
                        ok = False
                        ctx.bad(rule, r2, 'os._exit without flushing stdout: ' + U(c)[:40],
                                'os._exit() ends the process without flushing buffered streams: when stdout is a pipe or a file the tail '
                                'of the guess stream is lost (--limit N gives fewer than N lines)', {'entry': rel}, c, firm=True)
    if ctx.floor(rule, 'entry scripts', n, floor, 'entry scripts scanned for os._exit') and ok:
        ctx.ok(rule, 'entry scripts', 'no os._exit() reachable from %s' % ', '.join(entries))


def defaulted_getattr(ctx, rule, scope=('lib_trainer/', 'lib_guesser/', 'lib_scorer/', 'lib_princeling/', 'pcfg_guesser.py', 'trainer.py',
                                        'password_scorer.py', 'prince_ling.py', 'edit_rules.py')):
    defined = set()
    for rel, m in ctx.repo.modules.items():
        for n in ast.walk(m.tree):
            if isinstance(n, ast.Attribute) and isinstance(n.ctx, ast.Store):
                defined.add(n.attr)
            elif isinstance(n, (ast.FunctionDef, ast.AsyncFunctionDef, ast.ClassDef)):
                defined.add(n.name)
            elif isinstance(n, ast.ClassDef):
                pass
        for cls in m.classes.values():
            for st in cls.body:
                if isinstance(st, ast.Assign):
                    for t in st.targets:
                        if isinstance(t, ast.Name):
                            defined.add(t.id)
    nsites = 0
    ok = True
    for rel, m in ctx.repo.modules.items():
        if not rel.startswith(scope):
            continue
        for c in [x for x in ast.walk(m.tree) if isinstance(x, ast.Call)]:
            if isinstance(c.func, ast.Name) and c.func.id == 'getattr' and len(c.args) == 3 and isinstance(const(c.args[1]), str):
                nsites += 1
                name = const(c.args[1])
                recv = c.args[0]
                if isinstance(recv, ast.Name) and recv.id in ('sys', 'os', 'args') or U(recv).startswith(('sys.', 'os.')):
                    continue
                if name not in defined:
                    ok = False
                    ctx.bad(rule, rel, U(c)[:80], "no class of the repository defines an attribute '%s': the default is what this always "
                            'evaluates to (a misspelt name hidden by the default)' % name, None, c, firm=True)
    if ok:
        ctx.ok(rule, 'repository', 'every getattr(x, <name>, default) (%d sites) names an attribute that some class defines' % nsites)


def unpack_order(ctx, rule, scope=('lib_trainer/', 'lib_guesser/', 'lib_scorer/', 'lib_princeling/', 'pcfg_guesser.py', 'trainer.py',
                                   'password_scorer.py', 'prince_ling.py', 'edit_rules.py'), floor=8):
    """A call `a, b = f(..)` of a repository function whose every return is a tuple of plain names: when the names the caller
    unpacks into are the names the callee returns, they come in the callee's order.  (Seed C05-da: `found_providers, found_emails =
    email_detection(..)` while email_detection returns `email_list, provider_list` - the two counters swap contents.)  Names are
    matched by their parts (email ~ emails); decided only where every target matches exactly one returned name."""
    returns = {}        # simple name -> list of name tuples, or None when some return is not a tuple of names
    for q, fn in ctx.repo.all_funcs():
        rel, _, lname = q.partition('::')
        if not rel.startswith(scope):
            continue
        name = lname.rpartition('.')[2]
        rets = [r for r in walk_local(fn) if isinstance(r, ast.Return) and r.value is not None]
        tuples = []
        okf = bool(rets)
        for r in rets:
            if isinstance(r.value, ast.Tuple) and all(isinstance(e, ast.Name) for e in r.value.elts):
                tuples.append(tuple(e.id for e in r.value.elts))
            else:
                okf = False
        returns.setdefault(name, []).append(tuples if okf else None)
    n = 0
    ok = True
    for q, fn in ctx.repo.all_funcs():
        rel = q.partition('::')[0]
        if not rel.startswith(scope):
            continue
        for st in walk_local(fn):
            if not (isinstance(st, ast.Assign) and len(st.targets) == 1 and isinstance(st.targets[0], ast.Tuple)
                    and all(isinstance(e, ast.Name) for e in st.targets[0].elts) and isinstance(st.value, ast.Call)):
                continue
            f = st.value.func
            nm = f.attr if isinstance(f, ast.Attribute) else (f.id if isinstance(f, ast.Name) else None)
            cands = returns.get(nm)
            if not cands or len(cands) != 1 or cands[0] is None:
                continue
            tg = tuple(e.id for e in st.targets[0].elts)

            def toks(name):
                out = set()
                for t in name.lower().split('_'):
                    if t in ('found', 'list', 'new', 'cur', 'the', 'temp', 'tmp', ''):
                        continue
                    out.add(t[:-1] if t.endswith('s') and len(t) > 3 else t)
                return out

            def matching(ret):
                """position in `ret` that each target name denotes (by shared name parts), or None when that is not unambiguous"""
                perm = []
                for a in tg:
                    sc = [len(toks(a) & toks(b)) for b in ret]
                    best = max(sc)
                    if best == 0 or sc.count(best) != 1:
                        return None
                    perm.append(sc.index(best))
                return perm if sorted(perm) == list(range(len(tg))) else None
            for ret in cands[0]:
                perm = matching(ret) if len(ret) == len(tg) and len(set(tg)) == len(tg) else None
                if perm is not None:
                    n += 1
                    if perm != list(range(len(tg))):
                        ok = False
                        ctx.bad(rule, q, '%s = %s(..) while %s returns %s' % (', '.join(tg), nm, nm, ', '.join(ret)),
                                'the results are unpacked in another order than they are returned: each name now holds the other value',
                                None, st, firm=True)
    if ok:
        ctx.ok(rule, 'repository', 'every tuple result unpacked into the names it is returned under comes in the same order (%d sites)' % n)


def decode_error_policy(ctx, rule, scope=('lib_guesser/', 'lib_scorer/', 'lib_trainer/trainer_file_input.py'), floor=5):
    """How undecodable bytes are treated when a text file is read.  Two disciplines exist in this code base and nothing else is sound:

      strict (the default)   the file must decode exactly - the OMEN model files, config files: an undecodable byte aborts the load
      surrogateescape        + a re-encode check of every line in the same function (`line.encode(enc)` guarded by a handler of
                             UnicodeEncodeError): the undecodable line is detected, counted and skipped

    'replace' / 'ignore' / 'backslashreplace' silently turn the line into a different string that passes every later check (seed
    C19-da: the training reader with errors='replace' trains on U+FFFD and no longer counts the encoding error); surrogateescape
    WITHOUT the re-encode check lets lone surrogates into the model (seed C09-da: _load_ngrams - Markov guesses that cannot be
    written are then counted against --limit but never printed)."""
    from ..effects import open_mode as open_mode_of
    n = 0
    ok = True
    for q, fn in ctx.repo.all_funcs():
        rel = q.partition('::')[0]
        if not rel.startswith(scope):
            continue
        recheck = any(isinstance(h, ast.ExceptHandler) and h.type is not None and 'UnicodeEncodeError' in U(h.type) for h in ast.walk(fn)) \
            and any(isinstance(c, ast.Call) and isinstance(c.func, ast.Attribute) and c.func.attr == 'encode' for c in ast.walk(fn))
        # the reader class: the check lives in read_password, the open in __init__
        if q.endswith('TrainerFileInput.__init__'):
            rp = ctx.repo.modules[rel].funcs.get('TrainerFileInput.read_password')
            recheck = rp is not None and any(isinstance(h, ast.ExceptHandler) and h.type is not None and 'UnicodeEncodeError' in U(h.type)
                                             for h in ast.walk(rp))
        for c in calls_in(fn):
            m = open_mode_of(c)
            if m is None or 'b' in m or not ('r' in m or m == ''):
                continue
            n += 1
            ctx.stats['functions'].add(q)
            err = None
            for k in c.keywords:
                if k.arg == 'errors':
                    err = const(k.value) if const(k.value) is not NOCONST else U(k.value)
            pos = 3 if call_name(c) == 'codecs.open' else 4
            if err is None and len(c.args) > pos:
                err = const(c.args[pos]) if const(c.args[pos]) is not NOCONST else U(c.args[pos])
            policy = err or 'strict'
            if policy == 'strict':
                continue
            if policy == 'surrogateescape' and recheck:
                continue
            ok = False
            if policy == 'surrogateescape':
                ctx.bad(rule, q, "errors='surrogateescape' without a re-encode check: " + U(c)[:70],
                        'undecodable bytes enter the loaded data as lone surrogates and nothing in this function detects them', None, c, firm=True)
            else:
                ctx.bad(rule, q, 'errors=%r: %s' % (policy, U(c)[:70]),
                        'undecodable bytes are silently rewritten: the line becomes a different string that passes every later check', None, c, firm=True)
    if ctx.floor(rule, 'readers', n, floor, 'text-mode read sites') and ok:
        ctx.ok(rule, 'readers', 'all %d text-mode read sites decode strictly, or with surrogateescape plus a re-encode check' % n)


def writers_truncate(ctx, rule, scope=('lib_guesser/', 'lib_trainer/', 'lib_scorer/', 'lib_princeling/', 'pcfg_guesser.py', 'trainer.py',
                                       'password_scorer.py', 'prince_ling.py', 'edit_rules.py'), floor=8):
    """Every file these tools write holds ONE complete state (a ruleset file, a session file, a word list): it is opened with a
    truncating mode ('w' / 'wb').  Opened for appending, a second save lands behind the first and every reader - which reads from
    the start - sees the stale state (seeds C10-da / C15-da: the .omn session file opened 'ab'; C17-da: the -o word list)."""
    from ..effects import open_mode
    n = 0
    ok = True
    for q, fn in ctx.repo.all_funcs():
        rel = q.partition('::')[0]
        if not rel.startswith(scope):
            continue
        for c in calls_in(fn):
            m = open_mode(c)
            if m is None or m == '?' or not any(ch in m for ch in 'wax+'):
                continue
            n += 1
            ctx.stats['functions'].add(q)
            if 'w' not in m or '+' in m:
                ok = False
                ctx.bad(rule, q, 'file opened with mode %r: %s' % (m, U(c)[:70]),
                        'the file is not truncated: what an earlier save left in it stays in front of (or mixed with) the new state, and '
                        'readers take the stale part for the current one', None, c, firm=True)
    if ctx.floor(rule, 'writers', n, floor, 'write-mode open sites') and ok:
        ctx.ok(rule, 'writers', 'all %d files the tools write are opened truncating' % n)


def float_text_exact(ctx, rule, scope=('lib_trainer/', 'lib_guesser/priority_queue.py', 'lib_guesser/cracking_session.py', 'pcfg_guesser.py'), floor=6):
    """Numbers reach the files as str(x) / repr(x), which round-trip exactly; a fixed number of digits (format(x, '.12f'), '%.10f' % x,
    f'{x:.6e}', round(x, n)) does not: probabilities that differ collapse to the same text (and are then MERGED by the loader,
    which groups equal probabilities), small ones become 0.0.  (Seed C18-da: pcfg_omen_prob.txt written with format(p, '.12f');
    C01-da: the saved queue position written with f'{x:.15g}'.)  Checked on every argument of a .write(..) / config .set(..) call
    in the writers."""
    n = 0
    ok = True

    def lossy(e):
        for x in ast.walk(e):
            if isinstance(x, ast.Call) and isinstance(x.func, ast.Name) and x.func.id == 'format' and len(x.args) == 2 \
                    and isinstance(const(x.args[1]), str) and any(ch in const(x.args[1]) for ch in 'feEgG.%'):
                return U(x)
            if isinstance(x, ast.Call) and isinstance(x.func, ast.Name) and x.func.id == 'round' and len(x.args) == 2:
                return U(x)
            if isinstance(x, ast.FormattedValue) and x.format_spec is not None:
                spec = ''.join(v.value for v in x.format_spec.values if isinstance(v, ast.Constant) and isinstance(v.value, str))
                if any(ch in spec for ch in 'feEgG.%'):
                    return '{%s:%s}' % (U(x.value), spec)
            if isinstance(x, ast.BinOp) and isinstance(x.op, ast.Mod) and isinstance(const(x.left), str):
                import re as _re
                if _re.search(r'%[-+ 0#]*\d*(\.\d+)?[feEgG]', const(x.left)):
                    return U(x)[:60]
            if isinstance(x, ast.Call) and isinstance(x.func, ast.Attribute) and x.func.attr == 'format' and isinstance(const(x.func.value), str):
                import re as _re
                if _re.search(r'\{[^{}]*:[^{}]*[feEgG.%][^{}]*\}', const(x.func.value)):
                    return U(x)[:60]
        return None
    for q, fn in ctx.repo.all_funcs():
        rel = q.partition('::')[0]
        if not rel.startswith(scope):
            continue
        for c in calls_in(fn):
            if not (isinstance(c.func, ast.Attribute) and c.func.attr in ('write', 'set', 'writelines')):
                continue
            n += 1
            ctx.stats['functions'].add(q)
            for a in c.args:
                hit = lossy(expand_local(fn, a))
                if hit:
                    ok = False
                    ctx.bad(rule, q, 'number written with a fixed precision: ' + hit[:70],
                            'the text no longer round-trips: different probabilities collapse to one text (the loader then merges them into '
                            'one group), tiny ones become 0', None, c, firm=True)
    if ctx.floor(rule, 'writers', n, floor, 'write / set call sites in the writers') and ok:
        ctx.ok(rule, 'writers', 'none of the %d write sites formats a number with a fixed precision' % n)


def expand_local(fn, e):
    from ..core import expand, stores_in
    try:
        return expand(fn, e, stores_in(fn), depth=2)
    except Exception:       # noqa: BLE001
        return e


def generator_glue(ctx, rule):
    """Three small pieces of glue around the generator that every guess passes through (all found silent by the mutation sweep):

      * PcfgQueue.next gives up exactly when the heap is EMPTY (`len(q) == 0` / `not q`): `== 1` loses the last pre-terminal;
      * PcfgGrammar.create_guesses sends honeyword requests to _honeyword_recursive_guess and everything else to _recursive_guesses,
        starting from the empty guess and the whole parse tree, with the limit it was given;
      * PcfgGrammar.random_walk starts every position at index 0 (`(replacement, 0)`)."""
    from ..core import path_conditions
    ok = True
    # -- next
    q = 'lib_guesser/priority_queue.py::PcfgQueue.next'
    fn = ctx.fn(q)
    mod = ctx.repo.modules['lib_guesser/priority_queue.py']
    ctx.stats['functions'].add(q)
    pops = [c for c in calls_in(fn) if call_name(c) == 'heapq.heappop']
    empties = []
    for st in walk_local(fn):
        if isinstance(st, ast.If) and st.body and isinstance(st.body[-1], ast.Return) and (st.body[-1].value is None or const(st.body[-1].value) is None):
            empties.append(st)
    good_tests = {'len(self.p_queue) == 0', 'not self.p_queue', '0 == len(self.p_queue)', 'len(self.p_queue) < 1', 'len(self.p_queue) <= 0',
                  'not len(self.p_queue)'}
    if len(pops) != 1 or len(empties) != 1:
        ctx.unk(rule, q, 'expected one heappop and one "nothing left" exit in next() (%d / %d)' % (len(pops), len(empties)))
        ok = False
    elif U(empties[0].test) not in good_tests:
        t = U(empties[0].test)
        ok = False
        if 'p_queue' in t and isinstance(empties[0].test, (ast.Compare, ast.UnaryOp)):
            ctx.bad(rule, q, 'next() gives up when ' + t, 'the run ends when the heap is empty: any other test ends it with pre-terminals still '
                    'queued (or never)', None, empties[0], firm=True)
        else:
            ctx.unk(rule, q, 'the "nothing left" test of next() is not of a form this rule knows: ' + t)
    # -- create_guesses
    q2 = 'lib_guesser/pcfg_grammar.py::PcfgGrammar.create_guesses'
    fn2 = ctx.fn(q2)
    mod2 = ctx.repo.modules['lib_guesser/pcfg_grammar.py']
    ctx.stats['functions'].add(q2)
    ps = params(fn2)
    hw = [p for p in ps if 'honey' in p]
    calls = {call_name(c): c for c in calls_in(fn2) if call_name(c) in ('self._recursive_guesses', 'self._honeyword_recursive_guess')}
    if len(hw) != 1 or len(calls) != 2:
        ctx.unk(rule, q2, 'create_guesses is not the two-way dispatch this rule knows (%s, %s)' % (hw, sorted(calls)))
        ok = False
    else:
        from . import c08 as _c08
        for name, want in (('self._recursive_guesses', False), ('self._honeyword_recursive_guess', True)):
            c = calls[name]
            conds = path_conditions(mod2, _c08._stmt_of(mod2, c))
            val = None
            for t, pol in conds:
                if U(t) == hw[0]:
                    val = pol
                elif U(t) == 'not %s' % hw[0]:
                    val = not pol
            if val is None:
                ctx.unk(rule, q2, '%s is called under %s' % (name, [(U(t), p) for t, p in conds]))
                ok = False
            elif val != want:
                ok = False
                ctx.bad(rule, q2, '%s is called when %s is %s' % (name, hw[0], val), 'honeyword requests draw one random value per group, '
                        'everything else expands the full product', None, c, firm=True)
            args = [U(a) for a in c.args] + ['%s=%s' % (k.arg, U(k.value)) for k in c.keywords]
            if len(c.args) >= 2 and (const(c.args[0]) != '' or U(c.args[1]) != ps[1]):
                ok = False
                ctx.bad(rule, q2, '%s(%s)' % (name, ', '.join(args)), 'generation starts from the empty guess and the whole parse tree', None, c, firm=True)
            lim = [U(a) for a in c.args[2:3]] + [U(k.value) for k in c.keywords if k.arg == 'limit']
            if lim and lim[0] != 'limit':
                ok = False
                ctx.bad(rule, q2, '%s gets limit %s' % (name, lim[0]), 'the limit of the caller is handed on unchanged', None, c, firm=True)
    # -- random_walk start index
    q3 = 'lib_guesser/pcfg_grammar.py::PcfgGrammar.random_walk'
    fn3 = ctx.fn(q3)
    ctx.stats['functions'].add(q3)
    seeds = []
    for x in walk_local(fn3):
        if isinstance(x, ast.Tuple) and len(x.elts) == 2 and isinstance(x.elts[1], ast.Constant) and isinstance(x.elts[1].value, int) \
                and not isinstance(x.elts[1].value, bool) and isinstance(x.elts[0], ast.Name) and isinstance(x.ctx, ast.Load):
            seeds.append(x)
    if not seeds:
        ctx.unk(rule, q3, 'no (replacement, <index>) start element found in random_walk')
        ok = False
    for x in seeds:
        if x.elts[1].value != 0:
            ok = False
            ctx.bad(rule, q3, 'walk positions start at %s' % U(x), 'a position that the cumulative scan does not move stays at its start index: '
                    'it must be 0, the first (most probable) group', None, x, firm=True)
    if ok:
        ctx.ok(rule, 'lib_guesser', 'next() ends on an empty heap; create_guesses dispatches on the honeyword flag; walks start at index 0')


def limit_exhausted_leaves(ctx, rule, floor=4):
    """Wherever a driver loop finds its budget used up (`if limit <= 0:` after `limit = limit - n`), it LEAVES the loop (break / return).
    (Mutation sweep: `continue` in CrackingSession.run - a negative limit is truthy, so the run went on past --limit N without end.)"""
    sites = 0
    ok = True
    for q in ('lib_guesser/cracking_session.py::CrackingSession.run', 'lib_guesser/honeyword_session.py::HoneywordSession.run',
              'lib_guesser/pcfg_grammar.py::PcfgGrammar._recursive_guesses', 'lib_guesser/pcfg_grammar.py::PcfgGrammar.omen_generate_guesses',
              'lib_guesser/pcfg_grammar.py::PcfgGrammar.restore_omen'):
        try:
            fn = ctx.fn(q)
        except Exception:       # noqa: BLE001
            continue
        ctx.stats['functions'].add(q)
        for st in walk_local(fn):
            if isinstance(st, ast.If) and isinstance(st.test, ast.Compare) and len(st.test.ops) == 1 and isinstance(st.test.left, ast.Name) \
                    and 'limit' in st.test.left.id and isinstance(const(st.test.comparators[0]), int) \
                    and isinstance(st.test.ops[0], (ast.LtE, ast.Lt)) and const(st.test.comparators[0]) in (0, 1):
                sites += 1
                last = st.body[-1] if st.body else None
                if not isinstance(last, (ast.Break, ast.Return)):
                    ok = False
                    ctx.bad(rule, q, 'budget used up (%s) but the loop goes on: %s' % (U(st.test), U(last)[:30] if last is not None else ''),
                            'with the budget at or below 0 nothing more may be generated: a negative limit is truthy, the next round subtracts '
                            'from it again and never stops', None, st, firm=True)
    if ctx.floor(rule, 'drivers', sites, floor, '"budget used up" tests') and ok:
        ctx.ok(rule, 'drivers', 'all %d "budget used up" branches leave their loop' % sites)


def who_may(ctx, rule):
    """Four "only X may do Y" facts of the guesser and trainer glue, each a whole-repository scan of call / store sites:

      * the OMEN memo (`Optimizer.update`) is written only inside guess_structure.py (by _fill_out_parse_tree) - what it files under (ip, length,
        level) is the FIRST parse tree for that key; a tree written from anywhere else is some later tree (seed C15-eb: the restored,
        already advanced tree - strings before it are skipped by every later lookup);
      * `print_guess` is re-bound only by PcfgGrammar.save_to_file, to write_guess_to_file (seed C17-eb: a "write each word once"
        wrapper installed by prince_ling - suppressed words are still counted against --size);
      * a training reader's read_password() generator is created only as the iterable of a `for` loop in run_trainer (seed C19-eb:
        `next(file_input.read_password(), None)` to show the first password - pass 1 then starts at the second line);
      * the guesser never names raw_grammar.txt (seed C20-eb: a fall-back to the unfiltered list when grammar.txt yields nothing)."""
    ok = True
    n = 0
    for q, fn in ctx.repo.all_funcs():
        rel, _, lname = q.partition('::')
        mod = ctx.repo.modules[rel]
        for c in calls_in(fn):
            if isinstance(c.func, ast.Attribute) and c.func.attr == 'update' and 'optimizer' in U(c.func.value).lower() and rel.startswith('lib_guesser/'):
                n += 1
                if rel != 'lib_guesser/omen/guess_structure.py' and not rel.endswith('omen/optimizer.py'):
                    ok = False
                    ctx.bad(rule, q, 'the OMEN memo is written from here: ' + U(c)[:60], 'only _fill_out_parse_tree files the first parse tree of a '
                            '(prefix, length, level) key; any other writer files a later one and every lookup then starts behind strings that '
                            'were never generated', None, c, firm=True)
            if isinstance(c.func, ast.Attribute) and c.func.attr == 'read_password' and rel == 'lib_trainer/run_trainer.py':
                n += 1
                par = mod.parents.get(id(c))
                if not (isinstance(par, ast.For) and par.iter is c):
                    ok = False
                    ctx.bad(rule, q, 'read_password() called outside a for loop: ' + U(par)[:60] if par is not None else U(c),
                            'the generator shares the file position and the counters of its reader: whatever consumes an item here takes it '
                            'away from the pass that follows', None, c, firm=True)
        for st in walk_local(fn):
            tgts = st.targets if isinstance(st, ast.Assign) else []
            for t in tgts:
                if isinstance(t, ast.Attribute) and t.attr == 'print_guess':
                    n += 1
                    if not (q.endswith('PcfgGrammar.save_to_file') and U(st.value) == 'self.write_guess_to_file'):
                        ok = False
                        ctx.bad(rule, q, 'the output point is re-bound: ' + U(st)[:70], 'every emitter counts a guess next to its print_guess call; '
                                'a wrapper that drops or rewrites guesses makes the counts (and --limit / --size) disagree with what is written',
                                None, st, firm=True)
    for rel, m in ctx.repo.modules.items():
        if rel.startswith('lib_guesser/') or rel in ('pcfg_guesser.py', 'prince_ling.py'):
            for x in ast.walk(m.tree):
                if isinstance(x, ast.Constant) and isinstance(x.value, str) and 'raw_grammar' in x.value \
                        and not isinstance(m.parents.get(id(x)), ast.Expr):
                    ok = False
                    ctx.bad(rule, rel, 'the guesser names ' + repr(x.value), 'base structures are read from <folder>/grammar.txt only: raw_grammar.txt is '
                            'the unfiltered list (e-mail / website structures, and everything edit_rules removed)', None, x, firm=True)
    if ctx.floor(rule, 'repository', n, 6, 'memo writers / read_password calls / output re-bindings') and ok:
        ctx.ok(rule, 'repository', 'memo written by _fill_out_parse_tree only, print_guess re-bound by save_to_file only, read_password() only as '
               'a loop iterable, raw_grammar.txt not named by the guesser (%d sites)' % n)


_MUT_METHODS = {'append', 'extend', 'insert', 'remove', 'pop', 'clear', 'sort', 'reverse', 'add', 'discard', 'update', 'setdefault', 'popitem',
                'subtract', 'appendleft', 'popleft', '__iadd__', '__ior__'}
_INPLACE_FUNCS = {'iadd', 'operator.iadd', 'ior', 'operator.ior', 'iconcat', 'operator.iconcat', 'isub', 'operator.isub', 'iand', 'operator.iand'}


def read_only_helpers(ctx, rule):
    """Two helpers that only LOOK at what they are given:

      * interesting_keyboard(combo) answers yes / no: it does not change the run it judges (seed C05-eb deleted a leading 'e' from the
        caller's list in place - the caller then labels a three-key run K3 without re-checking the minimum length);
      * print_statistics(pcfg_parser) prints: it does not change the counters the ruleset is written from afterwards (seed C06-ea
        merged the per-length keyboard counters with reduce(operator.iadd, ..) - the first length class absorbed all the others).

    Checked: no mutating method call, subscript / attribute store, del, augmented assignment or in-place operator function on an
    object reached from the parameter."""
    ok = True
    n = 0
    for q in ('lib_trainer/detection_rules/keyboard_walk.py::interesting_keyboard', 'lib_trainer/print_statistics.py::print_statistics'):
        try:
            fn = ctx.fn(q)
        except Exception:       # noqa: BLE001
            continue
        ctx.stats['functions'].add(q)
        ps = set(params(fn))
        # locals that alias (parts of) the parameters: bound from an expression rooted at a parameter without a call that copies
        roots = set(ps)
        changed = True
        while changed:
            changed = False
            for st in walk_local(fn):
                if isinstance(st, ast.Assign) and len(st.targets) == 1 and isinstance(st.targets[0], ast.Name) and st.targets[0].id not in roots:
                    v = st.value
                    base = v
                    while isinstance(base, (ast.Attribute, ast.Subscript)):
                        base = base.value
                    if isinstance(base, ast.Name) and base.id in roots and not isinstance(v, ast.Name) is False or \
                            (isinstance(v, (ast.Attribute, ast.Subscript)) and isinstance(base, ast.Name) and base.id in roots):
                        roots.add(st.targets[0].id)
                        changed = True

        def rooted(e):
            while isinstance(e, (ast.Attribute, ast.Subscript)):
                e = e.value
            if isinstance(e, ast.Call) and isinstance(e.func, ast.Attribute) and e.func.attr in ('values', 'items', 'keys'):
                return rooted(e.func.value)
            return isinstance(e, ast.Name) and e.id in roots
        for x in walk_local(fn):
            hit = None
            if isinstance(x, ast.Call) and isinstance(x.func, ast.Attribute) and x.func.attr in _MUT_METHODS and rooted(x.func.value):
                hit = x
            elif isinstance(x, ast.Call) and (call_name(x) in _INPLACE_FUNCS) and x.args and rooted(x.args[0]):
                hit = x
            elif isinstance(x, ast.Call) and call_name(x) in ('reduce', 'functools.reduce') and x.args and (U(x.args[0]) in _INPLACE_FUNCS) \
                    and len(x.args) >= 2 and rooted(x.args[1]) and len(x.args) == 2:
                hit = x         # without an initial value the first element itself is the accumulator
            elif isinstance(x, ast.Delete) and any(rooted(t) and not isinstance(t, ast.Name) for t in x.targets):
                hit = x
            elif isinstance(x, (ast.Assign, ast.AugAssign)):
                tg = x.targets if isinstance(x, ast.Assign) else [x.target]
                if any(isinstance(t, (ast.Subscript, ast.Attribute)) and rooted(t) for t in tg):
                    hit = x
            if hit is not None:
                ok = False
                ctx.bad(rule, q, 'the argument is changed in place: ' + U(hit)[:70], 'this helper only inspects what it is given; its caller goes on '
                        'using the same object', None, hit, firm=True)
        n += 1
    if ctx.floor(rule, 'helpers', n, 2, 'read-only helpers') and ok:
        ctx.ok(rule, 'helpers', 'interesting_keyboard and print_statistics do not modify their arguments')


def terminals_stored_as_read(ctx, rule):
    """The guesser's terminal loader stores every value exactly as the file has it: whatever the options, no case mapping,
    stripping or normalisation of a loaded value (the one place --all_lower acts is the capitalisation MASK list, which is replaced by
    all-'L' masks).  Seeds C14-eb / C16-eb lower-cased the keyboard-walk (and context) terminals under --all_lower: '1QAZ' collapses
    onto '1qaz', which is then emitted twice, and words no derivation of the ruleset yields appear."""
    ok = True
    n = 0
    case_methods = {'lower', 'upper', 'casefold', 'title', 'capitalize', 'swapcase', 'strip', 'lstrip'}
    for q in ('lib_guesser/grammar_io.py::_load_from_file', 'lib_guesser/grammar_io.py::_load_terminals', 'lib_guesser/grammar_io.py::_load_from_multiple_files'):
        try:
            fn = ctx.fn(q)
        except Exception:       # noqa: BLE001
            continue
        ctx.stats['functions'].add(q)
        n += 1
        for x in walk_local(fn):
            if isinstance(x, ast.Call) and isinstance(x.func, ast.Attribute) and x.func.attr in case_methods and not x.args:
                recv = U(x.func.value)
                if x.func.attr in ('strip', 'lstrip') and ('line' in recv or recv in ('value',)) and q.endswith('_load_from_file') and False:
                    continue
                if x.func.attr in ('strip', 'lstrip'):
                    continue        # what is stripped from a LINE is C07.R5's question
                ok = False
                ctx.bad(rule, q, 'a loaded value is re-cased: ' + U(x)[:60], 'terminals are stored as read: --all_lower replaces the capitalisation '
                        'masks, it does not touch digits / keyboard walks / other terminals (an upper-case walk is a different terminal)', None, x, firm=True)
    if ctx.floor(rule, 'lib_guesser/grammar_io.py', n, 3, 'terminal loader functions') and ok:
        ctx.ok(rule, 'lib_guesser/grammar_io.py', 'no case mapping of loaded values in the terminal loaders')


def ruleset_info_keys(ctx, rule, floor=4):
    """ruleset_info is the dictionary load_grammar fills (rule name, versions, encoding, uuid) and every other part of the guesser
    reads: a key that is read must be a key that is written.  A `.get(key, default)` under a name nobody writes never fails - the
    default always wins (seed C14-fa: load_grammar records 'all_lower', _save_session writes rule_info.skip_case from
    ruleset_info.get('skip_case', False): every save file of an --all_lower session says skip_case = False and the resumed session
    runs with the full capitalisation masks from a position computed for the all-lower grammar)."""
    written = set()
    reads = []
    for rel, m in sorted(ctx.repo.modules.items()):
        if not (rel.startswith(('lib_guesser/', 'lib_princeling/')) or rel in ENTRY_SCRIPTS):
            continue
        for lname, fn in m.funcs.items():
            for x in walk_local(fn):
                if isinstance(x, ast.Assign):
                    for t in x.targets:
                        if isinstance(t, ast.Subscript) and U(t.value).endswith('ruleset_info') and isinstance(const(t.slice), str):
                            written.add(const(t.slice))
                        if U(t).endswith('ruleset_info') and isinstance(x.value, ast.Dict):
                            written.update(const(k) for k in x.value.keys if k is not None and isinstance(const(k), str))
                if isinstance(x, ast.Subscript) and isinstance(x.ctx, ast.Load) and U(x.value).endswith('ruleset_info') \
                        and isinstance(const(x.slice), str):
                    reads.append((rel + '::' + lname, const(x.slice), x))
                elif isinstance(x, ast.Call) and isinstance(x.func, ast.Attribute) and x.func.attr == 'get' and U(x.func.value).endswith('ruleset_info') \
                        and x.args and isinstance(const(x.args[0]), str):
                    reads.append((rel + '::' + lname, const(x.args[0]), x))
    ok = True
    for q, k, node in reads:
        ctx.stats['functions'].add(q)
        if k not in written:
            ok = False
            ctx.bad(rule, q, "ruleset_info key '%s' is read (%s) and never written" % (k, U(node)[:50]),
                    'what the loader recorded reaches its readers only under the key it was recorded under; read under another name, a '
                    'subscript fails and a .get() silently yields its default', {'written': sorted(written)}, node, firm=True)
    if ctx.floor(rule, 'lib_guesser/grammar_io.py', len(reads), floor, 'reads of ruleset_info by constant key') and ok:
        ctx.ok(rule, 'lib_guesser/grammar_io.py', 'the %d reads of ruleset_info use keys the loader writes (%s)' % (len(reads), sorted(written)))


def loader_prob_verbatim(ctx, rule, floor=2):
    """The probability a terminal loader stores is the number in the file: `float(<field>)`, neither clamped, rounded nor
    filtered by its value.  (Seed C01-ga: `max(float(..), sys.float_info.epsilon)` in the guesser's loader - terminals below 2.2e-16
    are lifted, adjacent groups merge and the attached probabilities are no longer products of the ruleset's numbers; seed C07-ga:
    the scorer's loader skips lines whose probability is not strictly inside (0, 1) - a file with a single value, probability
    exactly 1.0, loads as empty while the guesser loads it.)"""
    n = 0
    ok = True
    for q in ('lib_guesser/grammar_io.py::_load_from_file', 'lib_scorer/grammar_io.py::_load_from_file'):
        fn = ctx.fn(q)
        ctx.stats['functions'].add(q)

        def is_float_of_field(v):
            return isinstance(v, ast.Call) and call_name(v) == 'float' and len(v.args) == 1 and isinstance(v.args[0], ast.Subscript)
        pnames = set()
        for st in walk_local(fn):
            if isinstance(st, ast.Assign) and any(is_float_of_field(x) for x in ast.walk(st.value)):
                n += 1
                if is_float_of_field(st.value):
                    pnames.update(t.id for t in st.targets if isinstance(t, ast.Name))
                else:
                    ok = False
                    ctx.bad(rule, q, 'probability rewritten on load: ' + U(st)[:70], 'every tool must read the same number from the same '
                            'line: a clamp / rounding / scaling in one loader changes groups, order and attached probabilities for the '
                            'values it touches (very small, zero, one)', None, st, firm=True)
        for st in walk_local(fn):
            if isinstance(st, ast.If) and any((isinstance(x, ast.Name) and x.id in pnames) or is_float_of_field(x) for x in ast.walk(st.test)):
                t = st.test
                grouping = isinstance(t, ast.Compare) and len(t.ops) == 1 and isinstance(t.ops[0], (ast.Eq, ast.NotEq)) \
                    and all(isinstance(x, ast.Name) or is_float_of_field(x) for x in [t.left] + t.comparators)
                jumps = [x for b in (st.body, st.orelse) for s_ in b for x in ast.walk(s_) if isinstance(x, (ast.Continue, ast.Return, ast.Raise, ast.Break))]
                if jumps and not grouping:
                    ok = False
                    ctx.bad(rule, q, 'line skipped by the value of its probability: if %s' % U(t)[:50], 'a line is part of the ruleset '
                            'whatever its probability (0.0 and 1.0 are written by the trainer: an unseen OMEN level, a list with one '
                            'value): a loader that drops it disagrees with the loaders that keep it', None, st, firm=True)
    if ctx.floor(rule, 'lib_guesser/grammar_io.py', n, floor, 'probability reads in the terminal loaders') and ok:
        ctx.ok(rule, 'lib_guesser/grammar_io.py', 'both terminal loaders store float(<field>) as read and skip no line by its probability (%d reads)' % n)
