"""Plumbing rules shared by several properties: what the user asks for on the command line reaches the code that acts on it.

Every entry script (pcfg_guesser.py, trainer.py, password_scorer.py, prince_ling.py, edit_rules.py) parses its options into one
dictionary (`program_info`) that the rest of the script reads.  The rules below decide, per script:

  option_round_trip      an option whose argparse default is program_info[K] is stored back under K (never under another key), and
                         program_info[K] is stored from the option `K` was declared for (seed C14-ca: skip_case = args.skip_brute)
  options_not_rewritten  outside the parser no statement re-binds program_info[K] to a function of itself (seed C20-ca: the
                         ruleset name reduced to its basename - `--rule policies/Tiny` then edits Rules/Tiny)
  no_unflushed_exit      os._exit() - which skips the flush of buffered stdout - is not reachable (seed C09-ca)
  defaulted_getattr      getattr(x, '<name>', default) names an attribute some class of the repository defines (seed C19-ca: a
                         misspelt counter name always gives the default)
"""
import ast

from ..core import U, walk_local, calls_in, call_name, const, NOCONST, params, walk_stmts

ENTRY_SCRIPTS = ('pcfg_guesser.py', 'trainer.py', 'password_scorer.py', 'prince_ling.py', 'edit_rules.py')


def _info_key(node, info):
    """program_info['K'] -> 'K'"""
    if isinstance(node, ast.Subscript) and isinstance(node.value, ast.Name) and node.value.id == info and isinstance(const(node.slice), str):
        return const(node.slice)
    return None


def _dest_of(call):
    for k in call.keywords:
        if k.arg == 'dest' and isinstance(const(k.value), str):
            return const(k.value)
    longs = [const(a) for a in call.args if isinstance(const(a), str) and const(a).startswith('--')]
    if longs:
        return longs[0][2:].replace('-', '_')
    shorts = [const(a) for a in call.args if isinstance(const(a), str) and const(a).startswith('-')]
    if shorts:
        return shorts[0].lstrip('-').replace('-', '_')
    pos = [const(a) for a in call.args if isinstance(const(a), str)]
    return pos[0] if pos else None


def option_round_trip(ctx, rule, entries=ENTRY_SCRIPTS, floor=10):
    n = 0
    ok = True
    for rel in entries:
        q = rel + '::parse_command_line'
        if rel not in ctx.repo.modules or 'parse_command_line' not in ctx.repo.modules[rel].funcs:
            continue
        fn = ctx.repo.fn(q)
        ctx.stats['functions'].add(q)
        info = params(fn)[0] if params(fn) else 'program_info'
        default_key = {}        # dest -> K (the key the default comes from)
        dests = set()
        for c in calls_in(fn):
            if isinstance(c.func, ast.Attribute) and c.func.attr == 'add_argument':
                d = _dest_of(c)
                if d is None:
                    continue
                dests.add(d)
                for k in c.keywords:
                    if k.arg == 'default':
                        kk = _info_key(k.value, info)
                        if kk is not None:
                            default_key[d] = kk
        argsnames = {st.targets[0].id for st in walk_local(fn) if isinstance(st, ast.Assign) and len(st.targets) == 1
                     and isinstance(st.targets[0], ast.Name) and isinstance(st.value, ast.Call) and isinstance(st.value.func, ast.Attribute)
                     and st.value.func.attr == 'parse_args'}
        stored_from = {}        # K -> set(dest) read in the value stored under K
        for st in walk_local(fn):
            if isinstance(st, ast.Assign) and len(st.targets) == 1:
                K = _info_key(st.targets[0], info)
                if K is None:
                    continue
                used = {x.attr for x in ast.walk(st.value) if isinstance(x, ast.Attribute) and isinstance(x.value, ast.Name)
                        and x.value.id in argsnames}
                if used:
                    stored_from.setdefault(K, set()).update(used)
                    n += 1
                    for d in used:
                        if d in default_key and default_key[d] != K:
                            ok = False
                            ctx.bad(rule, q, "%s['%s'] = %s" % (info, K, U(st.value)[:50]),
                                    "the option --%s (default %s['%s']) is stored under the key of another option: what the user asks for "
                                    'with one flag switches the other' % (d, info, default_key[d]), {'dest': d}, st, firm=True)
                        elif d not in dests and dests:
                            ok = False
                            ctx.unk(rule, q, 'args.%s is read but no option of that name is declared' % d)
        # two keys fed by the same option while its own key is fed by nothing
        for d, K in default_key.items():
            if K not in stored_from and any(d in ds for ds in stored_from.values()):
                continue        # reported above as a mismatch
    if ctx.floor(rule, 'entry scripts', n, floor, 'options stored from the parsed command line') and ok:
        ctx.ok(rule, 'entry scripts', 'every option of the %d stored is kept under the key its default comes from' % n)


def options_not_rewritten(ctx, rule, entries=ENTRY_SCRIPTS, floor=8):
    n = 0
    ok = True
    for rel in entries:
        if rel not in ctx.repo.modules:
            continue
        m = ctx.repo.modules[rel]
        pq = 'parse_command_line'
        if pq not in m.funcs:
            continue
        pfn = m.funcs[pq]
        info = params(pfn)[0] if params(pfn) else 'program_info'
        option_keys = set()
        for st in walk_local(pfn):
            if isinstance(st, ast.Assign) and len(st.targets) == 1 and _info_key(st.targets[0], info) is not None:
                option_keys.add(_info_key(st.targets[0], info))
        n += len(option_keys)
        for lname, fn in m.funcs.items():
            if not isinstance(fn, (ast.FunctionDef, ast.AsyncFunctionDef)):
                continue
            q = rel + '::' + lname
            ctx.stats['functions'].add(q)
            names = set(params(fn)) | {'program_info'}
            for st in walk_local(fn):
                tg = st.targets[0] if isinstance(st, ast.Assign) and len(st.targets) == 1 else (st.target if isinstance(st, ast.AugAssign) else None)
                if tg is None or not (isinstance(tg, ast.Subscript) and isinstance(tg.value, ast.Name) and tg.value.id in names
                                      and isinstance(const(tg.slice), str) and const(tg.slice) in option_keys):
                    continue
                K = const(tg.slice)
                reads_self = isinstance(st, ast.AugAssign) or any(
                    isinstance(x, ast.Subscript) and isinstance(x.value, ast.Name) and x.value.id == tg.value.id and const(x.slice) == K
                    and x is not tg for x in ast.walk(st.value))
                if reads_self:
                    ok = False
                    ctx.bad(rule, q, "%s['%s'] re-bound to %s" % (tg.value.id, K, U(st.value)[:70]),
                            'the value the user gave is replaced by a function of itself before the tool acts on it: for some inputs the '
                            'tool now works on something else than what was named (a ruleset given by sub folder or path, ...)',
                            None, st, firm=True)
    if ctx.floor(rule, 'entry scripts', n, floor, 'option keys of the entry scripts') and ok:
        ctx.ok(rule, 'entry scripts', 'none of the %d option values is re-bound to a function of itself' % n)


def no_unflushed_exit(ctx, rule, entries=('pcfg_guesser.py', 'prince_ling.py', 'password_scorer.py'), floor=3):
    n = 0
    ok = True
    for rel in entries:
        if rel not in ctx.repo.modules:
            continue
        n += 1
        closure = ctx.resolver.closure([rel])
        for r2 in sorted(closure):
            m = ctx.repo.modules.get(r2)
            if m is None:
                continue
            for c in [x for x in ast.walk(m.tree) if isinstance(x, ast.Call)]:
                if U(c.func) in ('os._exit', '_exit'):
                    # flushed right before?
                    st = m.parents.get(id(c))
                    while st is not None and not isinstance(st, ast.stmt):
                        st = m.parents.get(id(st))
                    par = m.parents.get(id(st)) if st is not None else None
                    flushed = False
                    for field in ('body', 'orelse', 'finalbody'):
                        blk = getattr(par, field, None)
                        if isinstance(blk, list) and any(x is st for x in blk):
                            k = [j for j, x in enumerate(blk) if x is st][0]
                            flushed = any('sys.stdout.flush()' in U(b) for b in blk[:k])
                    if not flushed:
                        ok = False
                        ctx.bad(rule, r2, 'os._exit without flushing stdout: ' + U(c)[:40],
                                'os._exit() ends the process without flushing buffered streams: when stdout is a pipe or a file the tail '
                                'of the guess stream is lost (--limit N gives fewer than N lines)', {'entry': rel}, c, firm=True)
    if ctx.floor(rule, 'entry scripts', n, floor, 'entry scripts scanned for os._exit') and ok:
        ctx.ok(rule, 'entry scripts', 'no os._exit() reachable from %s' % ', '.join(entries))


def defaulted_getattr(ctx, rule, scope=('lib_trainer/', 'lib_guesser/', 'lib_scorer/', 'lib_princeling/', 'pcfg_guesser.py', 'trainer.py',
                                        'password_scorer.py', 'prince_ling.py', 'edit_rules.py')):
    defined = set()
    for rel, m in ctx.repo.modules.items():
        for n in ast.walk(m.tree):
            if isinstance(n, ast.Attribute) and isinstance(n.ctx, ast.Store):
                defined.add(n.attr)
            elif isinstance(n, (ast.FunctionDef, ast.AsyncFunctionDef, ast.ClassDef)):
                defined.add(n.name)
            elif isinstance(n, ast.ClassDef):
                pass
        for cls in m.classes.values():
            for st in cls.body:
                if isinstance(st, ast.Assign):
                    for t in st.targets:
                        if isinstance(t, ast.Name):
                            defined.add(t.id)
    nsites = 0
    ok = True
    for rel, m in ctx.repo.modules.items():
        if not rel.startswith(scope):
            continue
        for c in [x for x in ast.walk(m.tree) if isinstance(x, ast.Call)]:
            if isinstance(c.func, ast.Name) and c.func.id == 'getattr' and len(c.args) == 3 and isinstance(const(c.args[1]), str):
                nsites += 1
                name = const(c.args[1])
                recv = c.args[0]
                if isinstance(recv, ast.Name) and recv.id in ('sys', 'os', 'args') or U(recv).startswith(('sys.', 'os.')):
                    continue
                if name not in defined:
                    ok = False
                    ctx.bad(rule, rel, U(c)[:80], "no class of the repository defines an attribute '%s': the default is what this always "
                            'evaluates to (a misspelt name hidden by the default)' % name, None, c, firm=True)
    if ok:
        ctx.ok(rule, 'repository', 'every getattr(x, <name>, default) (%d sites) names an attribute that some class defines' % nsites)
