"""Import resolution, callee resolution and call graph (DESIGN 2.2)."""
import ast
import os

from .core import walk_local, dotted, params, U, kwarg


class Resolver:
    def __init__(self, repo):
        self.repo = repo
        self.bind = {}        # module rel -> {local name: ('func'|'class'|'module'|'ext', target)}
        self.imports = {}     # module rel -> set(module rel)
        for rel, m in repo.modules.items():
            self._bind_module(rel, m)
        self.methods = {}     # method name -> [qual]
        self.class_of = {}    # 'rel::Class' -> {method names}
        for rel, m in repo.modules.items():
            for lname in m.funcs:
                if '.' in lname:
                    c, meth = lname.split('.', 1)
                    self.methods.setdefault(meth, []).append(rel + '::' + lname)
                    self.class_of.setdefault(rel + '::' + c, set()).add(meth)
        self.attr_alias = self._attr_aliases()
        self.fn_params = self._function_valued_params()

    # -- imports ---------------------------------------------------------------------------
    def _mod_path(self, cur_rel, module, level):
        """Resolve a (possibly relative) module name to a repo-relative path, or None if external."""
        if level:
            base = os.path.dirname(cur_rel)
            for _ in range(level - 1):
                base = os.path.dirname(base)
            parts = module.split('.') if module else []
            cand = os.path.join(base, *parts) if parts else base
        else:
            cand = os.path.join(*module.split('.'))
        for p in (cand + '.py', os.path.join(cand, '__init__.py')):
            p = os.path.normpath(p)
            if p in self.repo.modules:
                return p
        return None

    def _bind_module(self, rel, m):
        b = {}
        imps = set()
        for name in m.classes:
            b[name] = ('class', rel + '::' + name)
        for lname in m.funcs:
            if '.' not in lname:
                b[lname] = ('func', rel + '::' + lname)
        for node in ast.walk(m.tree):
            if isinstance(node, ast.Import):
                for a in node.names:
                    tgt = self._mod_path(rel, a.name, 0)
                    local = a.asname or a.name.split('.')[0]
                    if tgt and (a.asname or '.' not in a.name):
                        b[local] = ('module', tgt)
                        imps.add(tgt)
                    elif tgt:
                        imps.add(tgt)
                        b[local] = ('pkg', a.name.split('.')[0])
                    else:
                        b[local] = ('ext', a.name if a.asname else a.name.split('.')[0])
            elif isinstance(node, ast.ImportFrom):
                tgt = self._mod_path(rel, node.module or '', node.level)
                for a in node.names:
                    local = a.asname or a.name
                    if tgt is None:
                        # maybe "from pkg import module"
                        sub = self._mod_path(rel, ((node.module + '.') if node.module else '') + a.name, node.level)
                        if sub:
                            b[local] = ('module', sub)
                            imps.add(sub)
                        else:
                            b[local] = ('ext', ((node.module or '') + '.' + a.name).lstrip('.'))
                        continue
                    imps.add(tgt)
                    tm = self.repo.modules[tgt]
                    if a.name in tm.classes:
                        b[local] = ('class', tgt + '::' + a.name)
                    elif a.name in tm.funcs:
                        b[local] = ('func', tgt + '::' + a.name)
                    else:
                        sub = self._mod_path(rel, ((node.module + '.') if node.module else '') + a.name, node.level)
                        if sub:
                            b[local] = ('module', sub)
                            imps.add(sub)
                        else:
                            b[local] = ('ext', a.name)
        self.bind[rel] = b
        self.imports[rel] = imps

    def closure(self, entry_rels):
        seen = set()
        todo = list(entry_rels)
        while todo:
            r = todo.pop()
            if r in seen or r not in self.repo.modules:
                continue
            seen.add(r)
            todo.extend(self.imports.get(r, ()))
        return seen

    # -- aliases ---------------------------------------------------------------------------
    def _attr_aliases(self):
        """self.x = self.y  (bound-method rebinding) -> {'rel::Class': {x: {y}}}"""
        out = {}
        for qual, fn in self.repo.all_funcs():
            rel, _, lname = qual.partition('::')
            if '.' not in lname:
                continue
            cls = rel + '::' + lname.split('.')[0]
            for n in walk_local(fn):
                if isinstance(n, ast.Assign) and len(n.targets) == 1:
                    t, v = n.targets[0], n.value
                    if isinstance(t, ast.Attribute) and isinstance(t.value, ast.Name) and t.value.id == 'self' \
                            and isinstance(v, ast.Attribute) and isinstance(v.value, ast.Name) and v.value.id == 'self' \
                            and v.attr in self.class_of.get(cls, ()):
                        out.setdefault(cls, {}).setdefault(t.attr, set()).add(v.attr)
        return out

    def _function_valued_params(self):
        """qual -> {param: set(callee quals)} from call sites that pass a function / bound method."""
        out = {}
        for qual, fn in self.repo.all_funcs():
            for call in (n for n in walk_local(fn) if isinstance(n, ast.Call)):
                tgts = self.resolve_call(qual, call, fn_params=False)
                for tq in tgts:
                    if tq.startswith('ext:') or not self.repo.has(tq):
                        continue
                    tf = self.repo.fn(tq)
                    ps = params(tf)
                    if ps and ps[0] in ('self', 'cls') and '.' in tq.partition('::')[2]:
                        ps = ps[1:]
                    pairs = list(zip(ps, call.args)) + [(k.arg, k.value) for k in call.keywords if k.arg]
                    for p, a in pairs:
                        ref = self.resolve_ref(qual, a)
                        if ref:
                            out.setdefault(tq, {}).setdefault(p, set()).update(ref)
        return out

    # -- references & calls ----------------------------------------------------------------
    def _cls_of(self, qual):
        rel, _, lname = qual.partition('::')
        return (rel + '::' + lname.split('.')[0]) if '.' in lname else None

    def resolve_ref(self, qual, node):
        """A function-valued expression (not a call): name of a function or self.method."""
        rel = qual.partition('::')[0]
        if isinstance(node, ast.Name):
            b = self.bind.get(rel, {}).get(node.id)
            if b and b[0] == 'func':
                return {b[1]}
        if isinstance(node, ast.Attribute) and isinstance(node.value, ast.Name) and node.value.id == 'self':
            cls = self._cls_of(qual)
            if cls and node.attr in self.class_of.get(cls, ()):
                return {cls + '.' + node.attr}
        return None

    def resolve_call(self, qual, call, closure=None, fn_params=True):
        """Set of callee quals ('rel::name') and/or 'ext:<dotted>' for a Call node inside function `qual`."""
        rel, _, lname = qual.partition('::')
        b = self.bind.get(rel, {})
        f = call.func
        out = set()
        # thread targets: the call itself is external, plus an edge to the target
        d = dotted(f)
        if d in ('threading.Thread', 'Thread'):
            tgt = kwarg(call, 'target', 1)
            if tgt is not None:
                ref = self.resolve_ref(qual, tgt)
                if ref:
                    out |= ref
        if isinstance(f, ast.Name):
            bb = b.get(f.id)
            if bb and bb[0] == 'func':
                out.add(bb[1])
            elif bb and bb[0] == 'class':
                init = bb[1] + '.__init__'
                out.add(init if self.repo.has(init) else 'ext:new:' + bb[1])
            elif fn_params and lname != '<module>' and self.repo.has(qual) and f.id in params(self.repo.fn(qual)):
                tg = self.fn_params.get(qual, {}).get(f.id)
                if tg:
                    out |= tg
                else:
                    out.add('ext:param:' + f.id)
            else:
                out.add('ext:' + f.id)
            return out
        if isinstance(f, ast.Attribute):
            meth = f.attr
            v = f.value
            if isinstance(v, ast.Name) and v.id == 'self':
                cls = self._cls_of(qual)
                if cls and meth in self.class_of.get(cls, ()):
                    out.add(cls + '.' + meth)
                    for al in self.attr_alias.get(cls, {}).get(meth, ()):
                        out.add(cls + '.' + al)
                    return out
                if cls and meth in self.attr_alias.get(cls, {}):
                    for al in self.attr_alias[cls][meth]:
                        out.add(cls + '.' + al)
                    return out
            if isinstance(v, ast.Name):
                bb = b.get(v.id)
                if bb and bb[0] == 'module':
                    tq = bb[1] + '::' + meth
                    tm = self.repo.modules[bb[1]]
                    if meth in tm.funcs:
                        out.add(tq)
                        return out
                    if meth in tm.classes:
                        init = bb[1] + '::' + meth + '.__init__'
                        out.add(init if self.repo.has(init) else 'ext:new:' + bb[1] + '::' + meth)
                        return out
                if bb and bb[0] == 'ext':
                    out.add('ext:' + (bb[1] + '.' + meth))
                    return out
                if bb and bb[0] == 'class':
                    tq = bb[1] + '.' + meth
                    if self.repo.has(tq):
                        out.add(tq)
                        return out
            if d:
                root = d.split('.')[0]
                bb = b.get(root)
                if bb and bb[0] == 'ext':
                    out.add('ext:' + bb[1] + d[len(root):])
                    return out
            # class-hierarchy analysis by method name
            cands = self.methods.get(meth, [])
            if closure is not None:
                cands = [c for c in cands if c.partition('::')[0] in closure]
            if cands:
                out.update(cands)
            out.add('ext:?.' + meth)
            return out
        out.add('ext:<dynamic>')
        return out


class CallGraph:
    def __init__(self, repo, resolver=None):
        self.repo = repo
        self.r = resolver or Resolver(repo)

    def body_nodes(self, qual):
        rel, _, lname = qual.partition('::')
        if lname == '<module>':
            m = self.repo.modules[rel]
            out = []
            for st in m.tree.body:
                if isinstance(st, (ast.FunctionDef, ast.AsyncFunctionDef, ast.ClassDef)):
                    continue
                out.extend(walk_local(st))
            return out
        return list(walk_local(self.repo.fn(qual)))

    def calls(self, qual, closure=None):
        """[(call node, set(callees))] in function `qual`."""
        out = []
        for n in self.body_nodes(qual):
            if isinstance(n, ast.Call):
                out.append((n, self.r.resolve_call(qual, n, closure)))
        return out

    def reach(self, entries, closure=None, stop=()):
        """BFS over repo functions from `entries`; returns {qual: parent qual or None}."""
        parent = {}
        todo = []
        for e in entries:
            parent[e] = None
            todo.append(e)
        while todo:
            q = todo.pop(0)
            if q in stop:
                continue
            for call, tgts in self.calls(q, closure):
                for t in sorted(tgts):
                    if t.startswith('ext:'):
                        continue
                    if t not in parent and self.repo.has(t):
                        parent[t] = q
                        todo.append(t)
        return parent

    @staticmethod
    def path_to(parent, q):
        out = []
        while q is not None:
            out.append(q)
            q = parent.get(q)
        return list(reversed(out))
