#!/usr/bin/env python3
"""CLI of the static analyser.

  python3-vt sa/run.py --property C01 --tier quick|thorough
  python3-vt sa/run.py --replay evidence/replay/C01-1.json
  python3-vt sa/run.py --self-check            (setup: parse /repo, resolve anchors of every property)
  python3-vt sa/run.py --all [--tier quick]

Exit codes: 0 all obligations discharged (known findings printed), 1 violation(s), 2 analysis error.
"""
import argparse
import json
import os
import sys
import time
import traceback

HERE = os.path.dirname(os.path.abspath(__file__))
sys.path.insert(0, os.path.dirname(HERE))

from sa import engine                      # noqa: E402
from sa.core import Repo, AnalysisError    # noqa: E402
from sa.props import REGISTRY, META        # noqa: E402


def run_one(prop, tier, seed, overlay=None, write=True, quiet=False, jobs=1):
    if prop not in REGISTRY:
        print('ANALYSIS-ERROR unknown property %s' % prop)
        return 2
    known = engine.load_known()
    t0 = time.time()
    rules = list(REGISTRY[prop](tier))
    extra = {}
    from sa.cfg import CFG
    if tier == 'thorough':
        from sa import thorough
        rules += thorough.EXTRA.get(prop, [])
        CFG.CROSSCHECK = True
        CFG.STATS.update({'paths_enumerated': 0, 'crosschecks': 0})
    ctx, wall = engine.run_property(prop, rules, tier, overlay=overlay)
    if tier == 'thorough':
        CFG.CROSSCHECK = False
        ctx.stats['paths'] += CFG.STATS['paths_enumerated']
        extra['must_pass_through_crosschecks'] = dict(CFG.STATS)
        if prop in ('C01', 'C07', 'C04') and overlay is None:
            from sa import thorough
            audit = thorough.audit_rulesets(os.path.join(engine.REPO, 'Rules'))
            extra['shipped_ruleset_audit'] = {
                'purpose': 'assumption evidence only (A2: lists sorted by non-increasing probability; config file lists = '
                           'files present); data of /repo/Rules, never changes the verdict',
                'rulesets': len(audit), 'files': sum(a.get('files', 0) for a in audit),
                'unsorted_files': [f for a in audit for f in a.get('unsorted_files', [])][:20],
                'config_list_mismatches': [dict(ruleset=a['ruleset'], **m) for a in audit for m in a.get('config_list_mismatch', [])][:20],
            }
    viol, kn, unk, okc = engine.summarise(ctx, known)
    selftest = None
    if tier == 'thorough' and overlay is None and write:
        try:
            from sa import selftest as st
            selftest = st.run_for_property(prop, jobs=jobs)
        except Exception as e:   # the self-test never changes the verdict
            selftest = {'error': '%s: %s' % (type(e).__name__, e)}
        try:
            # detection power on the filed seeds of this property (static analysis of patched scratch copies; informational)
            from sa import seedcheck as sc
            mx = sc.matrix_for_property(prop, jobs=max(1, jobs))
            extra['seeded_changes'] = {
                'purpose': 'what this check says about the realistic changes filed under /verif/seeded for this property: breaking '
                           'changes (V = reported as violation, U = inconclusive, - = silent) and behaviour-preserving edits (must '
                           'not be V); never changes the verdict on /repo',
                'breaking': mx['breaking'], 'benign': mx['benign'],
                'breaking_reported': sum(1 for v in mx['breaking'].values() if v in ('V', 'U')), 'breaking_total': len(mx['breaking']),
                'benign_silent': sum(1 for v in mx['benign'].values() if v == '-'), 'benign_total': len(mx['benign']),
                'benign_violations': sum(1 for v in mx['benign'].values() if v == 'V'),
            }
        except Exception as e:   # noqa: BLE001
            extra['seeded_changes'] = {'error': '%s: %s' % (type(e).__name__, e)}
    wall = time.time() - t0
    if write:
        meta = dict(META[prop])
        meta['cmd'] = 'python3-vt sa/run.py --property %s --tier %s' % (prop, tier)
        engine.write_evidence(prop, tier, seed, ctx, wall, known, meta, selftest=selftest, extra=extra)
    if not quiet:
        print('property %s tier=%s: %d obligations, %d discharged, %d violation(s), %d known finding(s), '
              '%d inconclusive; %d functions analysed; %.2fs'
              % (prop, tier, len(ctx.obs), okc, len(viol), len(kn), len(unk), len(ctx.stats['functions']), wall))
        for o, k in kn:
            print('KNOWN-FINDING: property=%s %s' % (prop, engine.fmt(o)))
        for o in unk:
            print('ANALYSIS-ERROR property=%s %s' % (prop, engine.fmt(o)))
        for i, o in enumerate(viol, 1):
            path = engine.write_replay(prop, i, o) if write else '-'
            print('REPORT %s' % engine.fmt(o))
            print('VIOLATION property=%s replay=%s' % (prop, path))
        if selftest and not quiet:
            print('selftest: %s' % json.dumps({k: v for k, v in selftest.items() if k != 'variants'}))
    if viol:
        return 1
    if unk:
        return 2
    return 0


def main():
    ap = argparse.ArgumentParser()
    ap.add_argument('--property')
    ap.add_argument('--tier', default=os.environ.get('VERIF_TIER', 'quick'), choices=['quick', 'thorough'])
    ap.add_argument('--replay')
    ap.add_argument('--self-check', action='store_true')
    ap.add_argument('--all', action='store_true')
    ap.add_argument('--jobs', type=int, default=1)
    ap.add_argument('--no-write', action='store_true')
    args = ap.parse_args()
    try:
        seed = int(os.environ.get('VERIF_SEED', '0'))
    except ValueError:
        seed = 0
    try:
        if args.self_check:
            repo = Repo(engine.REPO)
            if repo.errors:
                print('ANALYSIS-ERROR parse: %s' % repo.errors)
                return 2
            import networkx  # noqa: F401
            print('self-check: parsed %d modules, %d functions; networkx %s; %d properties registered'
                  % (len(repo.modules), sum(len(m.funcs) for m in repo.modules.values()), networkx.__version__,
                     len(REGISTRY)))
            return 0
        if args.replay:
            with open(args.replay) as f:
                rp = json.load(f)
            prop = rp['property']
            known = engine.load_known()
            ctx, wall = engine.run_property(prop, REGISTRY[prop]('quick'), 'quick')
            hits = [o for o in ctx.obs if o['rule'] == rp['rule'] and o['site'] == rp['site']]
            print('replay of %s %s on the current tree:' % (rp['rule'], rp['site']))
            rc = 0
            for o in hits:
                print('  [%s] %s' % (o['verdict'], engine.fmt(o)))
                if o['facts']:
                    print('     facts: %s' % json.dumps(o['facts'], default=str)[:2000])
                if o['verdict'] == engine.BAD and not engine.is_known(o, known):
                    rc = 1
            if not hits:
                print('  (no obligation of that rule at that site any more)')
            return rc
        if args.all:
            rc = 0
            for p in sorted(REGISTRY):
                rc = max(rc, run_one(p, args.tier, seed, write=not args.no_write, jobs=args.jobs))
            return rc
        if not args.property:
            ap.error('--property required')
        return run_one(args.property, args.tier, seed, write=not args.no_write, jobs=args.jobs)
    except AnalysisError as e:
        print('ANALYSIS-ERROR %s' % e)
        return 2
    except Exception:
        print('ANALYSIS-ERROR internal: %s' % traceback.format_exc().replace('\n', ' | '))
        return 2


if __name__ == '__main__':
    sys.exit(main())
