#!/usr/bin/env python3
"""Run the rule sets against seeded defects (patch.diff files) applied to a scratch copy of /repo's sources.

  python3-vt sa/seedcheck.py [--dir /verif/seeded] [--only C02] [--props C01,C02]

For every seed: copies the *.py sources of /repo to a scratch directory outside /repo and /verif, applies the
patch there (never in /repo), runs every registered property against the copy, removes the copy.
Prints a matrix: seed -> properties that report (V = violation, U = inconclusive).
A seed whose meta.json has "kind": "benign" is a behaviour-preserving edit: every property must stay silent on it.
"""
import argparse
import json
import os
import shutil
import subprocess
import sys
import tempfile
from concurrent.futures import ProcessPoolExecutor

HERE = os.path.dirname(os.path.abspath(__file__))
sys.path.insert(0, os.path.dirname(HERE))


def copy_sources(dst, root='/repo'):
    # every source file (a patch may touch files the analysis itself leaves out, e.g. lib_trainer/future_research)
    for dirpath, dirnames, filenames in os.walk(root):
        dirnames[:] = [d for d in dirnames if d not in ('.git', '__pycache__', 'Rules')]
        for fn in filenames:
            if fn.endswith('.py'):
                rel = os.path.relpath(os.path.join(dirpath, fn), root)
                os.makedirs(os.path.dirname(os.path.join(dst, rel)) or dst, exist_ok=True)
                shutil.copy2(os.path.join(dirpath, fn), os.path.join(dst, rel))


def run_seed(args):
    name, patch, props = args
    from sa import engine
    from sa.core import Repo
    from sa.props import REGISTRY
    tmp = tempfile.mkdtemp(prefix='sa_seed_')
    try:
        copy_sources(tmp)
        r = subprocess.run(['patch', '-p1', '--binary', '-s', '-i', patch], cwd=tmp, capture_output=True, text=True)
        if r.returncode != 0:
            r = subprocess.run(['git', 'apply', '--whitespace=nowarn', patch], cwd=tmp, capture_output=True, text=True)
            if r.returncode != 0:
                return name, {'error': 'patch does not apply: ' + (r.stdout + r.stderr)[:300]}
        known = engine.load_known()
        res = {}
        repo = Repo(tmp)
        for p in props:
            ctx, _ = engine.run_property(p, REGISTRY[p]('quick'), 'quick', repo=repo)
            viol, kn, unk, okc = engine.summarise(ctx, known)
            if viol or unk:
                res[p] = {'V': [engine.fmt(o)[:300] for o in viol], 'U': [engine.fmt(o)[:300] for o in unk]}
        return name, res
    finally:
        shutil.rmtree(tmp, ignore_errors=True)


def matrix_for_property(prop, jobs=8, root=None):
    """{breaking: {seed: 'V'|'U'|'-'}, benign: {...}} for the seeds filed for `prop` (patched scratch copies, analysed statically)."""
    root = root or os.path.join(os.path.dirname(HERE), 'seeded')
    seeds = []
    for base, benign in ((root, False), (os.path.join(root, 'benign'), True)):
        if not os.path.isdir(base):
            continue
        for d in sorted(os.listdir(base)):
            if d.startswith(prop + '-') and os.path.exists(os.path.join(base, d, 'patch.diff')):
                seeds.append((('benign/' if benign else '') + d, os.path.join(base, d, 'patch.diff'), [prop]))
    out = {'breaking': {}, 'benign': {}}
    if not seeds:
        return out
    with ProcessPoolExecutor(jobs) as ex:
        for name, res in ex.map(run_seed, seeds):
            r = res.get(prop, {}) if 'error' not in res else {'error': res['error']}
            flag = 'error' if 'error' in r else ('V' if r.get('V') else ('U' if r.get('U') else '-'))
            out['benign' if name.startswith('benign/') else 'breaking'][name.split('/')[-1]] = flag
    return out


def main():
    ap = argparse.ArgumentParser()
    ap.add_argument('--dir', default=os.path.join(os.path.dirname(HERE), 'seeded'))
    ap.add_argument('--only')
    ap.add_argument('--props')
    ap.add_argument('--jobs', type=int, default=8)
    ap.add_argument('-v', action='store_true')
    a = ap.parse_args()
    from sa.props import REGISTRY
    props = a.props.split(',') if a.props else sorted(REGISTRY)
    seeds = []
    for dp, dn, fn in sorted(os.walk(a.dir)):
        if 'patch.diff' in fn:
            name = os.path.relpath(dp, a.dir)
            if a.only and a.only not in name:
                continue
            seeds.append((name, os.path.join(dp, 'patch.diff'), props))
    seeds.sort()
    rc = 0
    with ProcessPoolExecutor(a.jobs) as ex:
        for name, res in ex.map(run_seed, seeds):
            target = name.split('/')[0].split('-')[0].split('_')[0][:3]
            if 'error' in res:
                print('%-10s ERROR %s' % (name, res['error']))
                continue
            benign = False
            try:
                mp = os.path.join(a.dir, name, 'meta.json')
                benign = json.load(open(mp)).get('kind') == 'benign'
            except Exception:
                pass
            if benign:
                fl = ' '.join('%s:%s' % (p, ('V' if r['V'] else '') + ('U' if r['U'] else '')) for p, r in sorted(res.items()))
                print('%-12s %s  %s' % (name, 'FALSE-ALARM' if res else 'silent-ok  ', fl))
                if a.v or res:
                    for p, r in sorted(res.items()):
                        for x in r['V'] + r['U']:
                            print('      %s %s' % (p, x))
                continue
            flags = ' '.join('%s:%s' % (p, ('V' if r['V'] else '') + ('U' if r['U'] else '')) for p, r in sorted(res.items()))
            hit = target in res
            others = [p for p in res if p != target]
            print('%-10s %s  %s%s' % (name, 'DETECTED' if hit else 'missed  ', flags,
                                      ('   <-- also fires: ' + ','.join(others)) if others else ''))
            if a.v:
                for p, r in sorted(res.items()):
                    for x in r['V'] + r['U']:
                        print('      %s %s' % (p, x))
    return rc


if __name__ == '__main__':
    sys.exit(main())
