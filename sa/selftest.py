#!/usr/bin/env python3
"""Self-test of the checker (DESIGN section 7): one-instance breakages and behaviour-preserving variants, applied to
an in-memory overlay of the *current* tree by text substitution (the substitution is only the way the variant is
produced; the verdict is computed by the normal rules on the parsed variant).

  python3-vt sa/selftest.py [--property C02] [--jobs 16] [-v]

A variant: (property, name, file, old, new, expect) with expect in
   'fire'   : the property's check must report a violation or be inconclusive (non-zero) and name `rule`
   'silent' : the check must stay at exit 0
If `old` does not occur exactly once in the current file the variant is reported as 'stale' (not a failure).
"""
import argparse
import json
import os
import sys
from concurrent.futures import ProcessPoolExecutor

HERE = os.path.dirname(os.path.abspath(__file__))
sys.path.insert(0, os.path.dirname(HERE))

from sa import engine                    # noqa: E402
from sa.variants import VARIANTS         # noqa: E402


def _read(rel):
    with open(os.path.join(engine.REPO, rel), 'rb') as f:
        return f.read().decode('utf-8').replace('\r\n', '\n')


def run_variant(v):
    from sa.props import REGISTRY
    prop, name, rel, old, new, expect = v[:6]
    rule = v[6] if len(v) > 6 else None
    try:
        src = _read(rel)
    except OSError:
        return dict(property=prop, name=name, status='stale', detail='file missing')
    pairs = old if isinstance(old, (list, tuple)) else [(old, new)]
    for o, n in pairs:
        if src.count(o) != 1:
            return dict(property=prop, name=name, status='stale', detail='pattern occurs %d times' % src.count(o))
        src = src.replace(o, n)
    overlay = {rel: src}
    try:
        compile(overlay[rel], rel, 'exec')
    except SyntaxError as e:
        return dict(property=prop, name=name, status='broken-variant', detail=str(e))
    known = engine.load_known()
    if prop == '*':
        # behaviour-preserving edit: every property must stay silent
        from sa.core import Repo
        repo = Repo(engine.REPO, overlay)
        fired = []
        viol = unk = []
        for pp in sorted(REGISTRY):
            ctx, _ = engine.run_property(pp, REGISTRY[pp]('quick'), 'quick', repo=repo)
            v_, kn, u_, okc = engine.summarise(ctx, known)
            fired += [o['rule'] for o in v_] + [o['rule'] + '(inconclusive)' for o in u_]
            viol = viol or v_
            unk = unk or u_
    else:
        ctx, _ = engine.run_property(prop, REGISTRY[prop]('quick'), 'quick', overlay=overlay)
        viol, kn, unk, okc = engine.summarise(ctx, known)
        fired = [o['rule'] for o in viol] + [o['rule'] + '(inconclusive)' for o in unk]
    if expect == 'fire':
        ok = bool(fired) and (rule is None or any(f.split('(')[0] == rule for f in fired))
    else:
        ok = not fired
    return dict(property=prop, name=name, expect=expect, status='ok' if ok else 'FAIL', fired=sorted(set(fired)),
                detail=(engine.fmt((viol + unk)[0])[:200] if (viol or unk) else ''))


def run_for_property(prop=None, jobs=8):
    vs = [v for v in VARIANTS if prop is None or v[0] == prop or (prop == 'benign' and v[0] == '*')]
    if not vs:
        return {'variants': [], 'total': 0}
    if jobs > 1 and len(vs) > 1:
        with ProcessPoolExecutor(min(jobs, len(vs))) as ex:
            res = list(ex.map(run_variant, vs))
    else:
        res = [run_variant(v) for v in vs]
    return {
        'total': len(res),
        'fire_ok': sum(1 for r in res if r.get('expect') == 'fire' and r['status'] == 'ok'),
        'silent_ok': sum(1 for r in res if r.get('expect') == 'silent' and r['status'] == 'ok'),
        'failed': [r for r in res if r['status'] == 'FAIL'],
        'stale': [r['name'] for r in res if r['status'] in ('stale', 'broken-variant')],
        'variants': res,
    }


def main():
    ap = argparse.ArgumentParser()
    ap.add_argument('--property')
    ap.add_argument('--jobs', type=int, default=16)
    ap.add_argument('-v', action='store_true')
    a = ap.parse_args()
    r = run_for_property(a.property, a.jobs)
    for x in r['variants']:
        if a.v or x['status'] != 'ok':
            print('%-4s %-45s %-7s %-6s %s %s' % (x['property'], x['name'], x.get('expect', ''), x['status'],
                                                  ','.join(x.get('fired', [])), x.get('detail', '')[:150]))
    print('selftest: %d variants, %d fire-ok, %d silent-ok, %d failed, %d stale'
          % (r['total'], r.get('fire_ok', 0), r.get('silent_ok', 0), len(r.get('failed', [])), len(r.get('stale', []))))
    return 1 if r.get('failed') else 0


if __name__ == '__main__':
    sys.exit(main())
