"""Thorough tier extras (DESIGN 2.6): whole-program sweeps of the generic form of the rules, data audit of the
shipped rulesets (standing assumptions A2 / config lists), path-enumeration cross-check switch."""
import ast
import configparser
import json
import os

from .core import U, walk_local, calls_in, call_name, const, NOCONST, params, stores_in
from .cfg import CFG
from .props import c05, c09, c14
from .props.common import copy_depth


# ---------------------------------------------------------------------------------------------
def sweep_index_space(ctx, rule, prefixes, known_sites=()):
    """Generic index-space rule on every function under `prefixes`: an index obtained from a case-mapped copy
    (enumerate / find / len of x.lower()/upper()/casefold()) used to subscript the original x."""
    n = 0
    found = []
    for qual, fn in ctx.repo.all_funcs():
        if not qual.startswith(tuple(prefixes)):
            continue
        n += 1
        stores = stores_in(fn)
        mapped = {}
        for nm, lst in stores.items():
            for s, v in lst:
                if v is not None and isinstance(v, ast.Call) and isinstance(v.func, ast.Attribute) \
                        and v.func.attr in ('lower', 'upper', 'casefold', 'title', 'swapcase') and not v.args:
                    mapped[nm] = U(v.func.value)
        if not mapped:
            continue
        derived = set()
        for node in walk_local(fn):
            if isinstance(node, ast.For) and isinstance(node.iter, ast.Call) and call_name(node.iter) == 'enumerate' \
                    and node.iter.args and U(node.iter.args[0]) in mapped and isinstance(node.target, ast.Tuple):
                derived.add(U(node.target.elts[0]))
        changed = True
        while changed:
            changed = False
            for nm, lst in stores.items():
                if nm in derived:
                    continue
                for s, v in lst:
                    src = v if v is not None else (s.value if isinstance(s, ast.AugAssign) else None)
                    if src is None:
                        continue
                    names = {x.id for x in ast.walk(src) if isinstance(x, ast.Name)}
                    on_copy = any(isinstance(c, ast.Call) and isinstance(c.func, ast.Attribute) and c.func.attr in ('find', 'rfind', 'index')
                                  and any(isinstance(x, ast.Name) and x.id in mapped for x in ast.walk(c.func.value)) for c in ast.walk(src))
                    ln = any(isinstance(c, ast.Call) and call_name(c) == 'len' and c.args and U(c.args[0]) in mapped for c in ast.walk(src))
                    if (names & derived) or on_copy or ln:
                        derived.add(nm)
                        changed = True
        originals = set(mapped.values())
        for node in walk_local(fn):
            if isinstance(node, ast.Subscript) and U(node.value) in originals:
                if {x.id for x in ast.walk(node.slice) if isinstance(x, ast.Name)} & derived:
                    found.append((qual, U(node)))
                    break
    new = [f for f in found if f[0] not in known_sites]
    if new:
        for q, u in new:
            ctx.bad(rule, q, 'original string sliced with indexes computed on its case-mapped copy',
                    'generic index-space rule (whole-program sweep): ' + u, None, None)
    else:
        ctx.ok(rule, prefixes[0], 'whole-program index-space sweep: %d functions, %d sites, none beyond the known ones'
               % (n, len(found)), {'sites': found})


def sweep_aliasing(ctx, rule, prefixes):
    """Generic copy-before-mutate: a subscript store into a list that is (an alias of) a parameter or of an element of
    a parameter, in the guesser core."""
    n = 0
    bad = []
    for qual, fn in ctx.repo.all_funcs():
        if not qual.startswith(tuple(prefixes)):
            continue
        n += 1
        ps = set(params(fn)) - {'self'}
        stores = stores_in(fn)
        alias = set(ps)
        for nm, lst in stores.items():
            for s, v in lst:
                if v is None:
                    continue
                d, src = copy_depth(v)
                if d:
                    continue
                root = v
                while isinstance(root, (ast.Subscript, ast.Attribute)):
                    root = root.value
                if isinstance(root, ast.Name) and root.id in ps and isinstance(v, (ast.Subscript, ast.Name)):
                    alias.add(nm)
        for node in walk_local(fn):
            if isinstance(node, ast.Subscript) and isinstance(node.ctx, ast.Store) and isinstance(node.value, ast.Name) \
                    and node.value.id in alias and node.value.id not in ps:
                # store through a non-copied alias of parameter data
                defs = [U(v) for s, v in stores.get(node.value.id, []) if v is not None]
                bad.append((qual, U(node), defs))
    allowed = {'lib_guesser/omen/markov_cracker.py::MarkovCracker.load_session'}
    new = [b for b in bad if b[0] not in allowed]
    if new:
        for q, u, d in new:
            ctx.bad(rule, q, 'store %s into an un-copied alias of parameter data (%s)' % (u, d), 'generic aliasing rule (sweep)', None, None)
    else:
        ctx.ok(rule, prefixes[0], 'aliasing sweep over %d functions: no store through an un-copied alias of parameter data' % n,
               {'allowed': sorted(allowed), 'all': bad})


def sweep_file_typestate(ctx, rule):
    """Every function of the repo that iterates the same file object more than once."""
    n = 0
    hits = 0
    for qual, fn in ctx.repo.all_funcs():
        loops = {}
        for node in walk_local(fn):
            if isinstance(node, ast.For) and isinstance(node.iter, ast.Name):
                loops.setdefault(node.iter.id, 0)
                loops[node.iter.id] += 1
        if not any(v > 1 for v in loops.values()):
            continue
        n += 1
        for f, cfg, ln, bad, start in c14.file_typestate(ctx, rule, qual):
            hits += 1
            if bad:
                ctx.bad(rule, qual, 'second pass over file %s entered in state %s' % (f, '/'.join(sorted(bad))),
                        'generic rewind typestate rule (sweep)', None, cfg.nodes[ln].stmt)
    ctx.ok(rule, 'repo', 'file typestate sweep: %d functions with repeated iteration, %d file loops checked' % (n, hits), nontrivial=hits > 0)


# ---------------------------------------------------------------------------------------------
def audit_rulesets(root='/repo/Rules'):
    """Data audit of the shipped rulesets (assumption evidence only; never changes the verdict)."""
    out = []
    if not os.path.isdir(root):
        return out
    for name in sorted(os.listdir(root)):
        d = os.path.join(root, name)
        ci = os.path.join(d, 'config.ini')
        if not os.path.isfile(ci):
            continue
        rec = {'ruleset': name, 'files': 0, 'unsorted_files': [], 'config_list_mismatch': [], 'unreadable': []}
        cfg = configparser.ConfigParser()
        try:
            cfg.read(ci)
            enc = cfg.get('TRAINING_DATASET_DETAILS', 'encoding')
        except Exception as e:
            rec['error'] = str(e)[:100]
            out.append(rec)
            continue
        for sec in cfg.sections():
            if not cfg.has_option(sec, 'filenames') or not cfg.has_option(sec, 'directory'):
                continue
            folder = os.path.join(d, cfg.get(sec, 'directory'))
            try:
                listed = set(json.loads(cfg.get(sec, 'filenames')))
            except Exception:
                continue
            if sec == 'START':
                continue
            present = set(f for f in os.listdir(folder) if f.endswith('.txt')) if os.path.isdir(folder) else set()
            if listed != present:
                rec['config_list_mismatch'].append({'section': sec, 'listed_not_present': sorted(listed - present)[:5],
                                                    'present_not_listed': sorted(present - listed)[:5]})
            for f in sorted(listed & present):
                p = os.path.join(folder, f)
                rec['files'] += 1
                try:
                    prev = None
                    with open(p, 'rb') as fh:
                        for raw in fh:
                            line = raw.decode(enc, errors='replace').rstrip('\r\n')
                            if '\t' not in line:
                                continue
                            pr = float(line.rsplit('\t', 1)[1])
                            if prev is not None and pr > prev:
                                rec['unsorted_files'].append(os.path.relpath(p, root))
                                break
                            prev = pr
                except Exception as e:
                    rec['unreadable'].append((os.path.relpath(p, root), str(e)[:60]))
        for extra in (('Grammar', 'grammar.txt'), ('Omen', 'pcfg_omen_prob.txt'), ('Prince', 'grammar.txt')):
            p = os.path.join(d, *extra)
            if os.path.isfile(p):
                rec['files'] += 1
                prev = None
                try:
                    with open(p, 'rb') as fh:
                        for raw in fh:
                            line = raw.decode('latin-1').rstrip('\r\n')
                            if '\t' not in line:
                                continue
                            pr = float(line.rsplit('\t', 1)[1])
                            if prev is not None and pr > prev:
                                rec['unsorted_files'].append(os.path.relpath(p, root))
                                break
                            prev = pr
                except Exception as e:
                    rec['unreadable'].append((os.path.relpath(p, root), str(e)[:60]))
        out.append(rec)
    return out


EXTRA = {
    'C02': [('C02.T1', lambda c, r: sweep_aliasing(c, r, ['lib_guesser/pcfg_grammar.py', 'lib_guesser/priority_queue.py']))],
    'C04': [('C04.T1', lambda c, r: sweep_index_space(c, r, ['lib_guesser/']))],
    'C05': [('C05.T1', lambda c, r: sweep_index_space(c, r, ['lib_trainer/'], known_sites=(
        'lib_trainer/detection_rules/alpha_detection.py::detect_alpha', 'lib_trainer/detection_rules/email_detection.py::detect_email',
        'lib_trainer/detection_rules/website_detection.py::detect_website')))],
    'C13': [('C13.T1', lambda c, r: sweep_index_space(c, r, ['lib_scorer/']))],
    'C14': [('C14.T1', sweep_file_typestate)],
}
