"""Self-test catalogue (DESIGN section 7).  (property, name, file, old, new, expect[, rule])"""

PGF = 'lib_guesser/pcfg_grammar.py'
PQF = 'lib_guesser/priority_queue.py'
GIO = 'lib_guesser/grammar_io.py'
CSF = 'lib_guesser/cracking_session.py'

V = []


def add(prop, name, rel, old, new, expect, rule=None):
    V.append((prop, name, rel, old, new, expect, rule))


# ---- C01 ------------------------------------------------------------------------------------------------------
LT_OLD = "        return self.pt_item['prob'] > other.pt_item['prob']"
add('C01', 'lt-flipped', PQF, LT_OLD, "        return self.pt_item['prob'] < other.pt_item['prob']", 'fire', 'C01.R1')
add('C01', 'lt-ge (tie answer differs, order kept)', PQF, LT_OLD, "        return self.pt_item['prob'] >= other.pt_item['prob']", 'silent')
add('C01', 'lt-operands-swapped', PQF, LT_OLD, "        return other.pt_item['prob'] < self.pt_item['prob']", 'silent')
add('C01', 'lt-not-le', PQF, LT_OLD, "        return not (self.pt_item['prob'] <= other.pt_item['prob'])", 'silent')
add('C01', 'lt-via-locals', PQF, LT_OLD, "        mine = self.pt_item['prob']\n        theirs = other.pt_item['prob']\n        return mine > theirs", 'silent')
add('C01', 'lt-tolerance', PQF, LT_OLD, "        return self.pt_item['prob'] - other.pt_item['prob'] > 1e-12", 'fire', 'C01.R1')
add('C01', 'heap-append', PQF, "        heapq.heappush(self.p_queue, QueueItem(queue_item))", "        self.p_queue.append(QueueItem(queue_item))", 'fire', 'C01.R2')
add('C01', 'heap-list-pop', PQF, "        queue_item = heapq.heappop(self.p_queue)", "        queue_item = self.p_queue.pop()", 'fire', 'C01.R2')
add('C01', 'push-raw-item', PQF, "        heapq.heappush(self.p_queue, QueueItem(queue_item))", "        heapq.heappush(self.p_queue, queue_item)", 'fire', 'C01.R2')
FP_INIT = "        prob = base_prob\n\n        for item in pt:"
add('C01', 'findprob-starts-at-1', PGF, FP_INIT, "        prob = 1.0\n\n        for item in pt:", 'fire', 'C01.R3')
add('C01', 'findprob-plus', PGF, "            prob *= self.grammar[pt_type][index]['prob']", "            prob += self.grammar[pt_type][index]['prob']", 'fire', 'C01.R3')
add('C01', 'findprob-explicit-mult', PGF, "            prob *= self.grammar[pt_type][index]['prob']", "            prob = prob * self.grammar[pt_type][index]['prob']", 'silent')
add('C01', 'findprob-skip-factor', PGF, "            prob *= self.grammar[pt_type][index]['prob']", "            if index:\n                prob *= self.grammar[pt_type][index]['prob']", 'fire', 'C01.R3')
add('C01', 'findprob-values-len', PGF, "            prob *= self.grammar[pt_type][index]['prob']", "            prob *= self.grammar[pt_type][index]['prob'] * len(self.grammar[pt_type][index]['values'])", 'fire', 'C01.R3')
CHILD_PROB = "                    'prob': self._find_prob(child, pt_item['base_prob'])\n                }\n                children_list.append(child_item)"
add('C01', 'child-prob-from-parent-list', PGF, CHILD_PROB, CHILD_PROB.replace('self._find_prob(child,', 'self._find_prob(parent_pt,'), 'fire', 'C01.R4')
add('C01', 'child-prob-incremental', PGF, CHILD_PROB, CHILD_PROB.replace("self._find_prob(child, pt_item['base_prob'])", "parent_prob * self.grammar[parent_type][parent_index + 1]['prob'] / self.grammar[parent_type][parent_index]['prob']"), 'fire', 'C01.R4')
add('C01', 'child-base-prob-changed', PGF, "                    'pt':child,\n                    'base_prob': pt_item['base_prob'],\n                    'prob': self._find_prob(child, pt_item['base_prob'])\n                }\n                children_list.append(child_item)",
    "                    'pt':child,\n                    'base_prob': 1.0,\n                    'prob': self._find_prob(child, pt_item['base_prob'])\n                }\n                children_list.append(child_item)", 'fire', 'C01.R4')
SUCC = "            child = copy.copy(parent_pt)\n            child[pos] = (child[pos][0], child[pos][1]+1)\n\n            # Check to see if the child belongs to this parent"
add('C01', 'succ-plus-2', PGF, SUCC, SUCC.replace("child[pos][1]+1", "child[pos][1]+2"), 'fire', 'C01.R5')
GUARD_FC = "            if len(self.grammar[parent_type]) == parent_index +1:\n                continue\n\n            # Create the child node\n            child = copy.copy(parent_pt)\n            child[pos] = (child[pos][0], child[pos][1]+1)\n\n            # Check to see"
add('C01', 'guard-plus-2', PGF, GUARD_FC, GUARD_FC.replace("== parent_index +1", "== parent_index +2"), 'fire', 'C01.R5')
add('C01', 'guard-as-le', PGF, GUARD_FC, GUARD_FC.replace("if len(self.grammar[parent_type]) == parent_index +1:", "if len(self.grammar[parent_type]) <= parent_index + 1:"), 'silent')
add('C01', 'guard-as-minus', PGF, GUARD_FC, GUARD_FC.replace("if len(self.grammar[parent_type]) == parent_index +1:", "if parent_index == len(self.grammar[parent_type]) - 1:"), 'silent')
add('C01', 'loader-insert-front', GIO, "                    grammar_section.append(item)", "                    grammar_section.insert(0, item)", 'fire', 'C01.R6')
add('C01', 'time-in-next-never-read * (ghost state since round 10)', PQF, "        queue_item = heapq.heappop(self.p_queue)", "        import time\n        self.last_pop = time.time()\n        queue_item = heapq.heappop(self.p_queue)", 'silent')
add('C01', 'time-in-next-decides', PQF, "        queue_item = heapq.heappop(self.p_queue)", "        import time\n        if time.time() < 0:\n            return None\n        queue_item = heapq.heappop(self.p_queue)", 'fire', 'C01.R7')
RENORM = "                        total_prob = total_prob - float(split_values[1])\n                        break"
add('C01', 'single-pass-renormalisation', GIO, "                value = split_values[0]\n                prob = float(split_values[1]) / total_prob",
    "                value = split_values[0]\n                if value == 'M':\n                    total_prob = total_prob - float(split_values[1])\n                prob = float(split_values[1]) / total_prob", 'fire', 'C01.R8')

# ---- C02 ------------------------------------------------------------------------------------------------------
TIE = "            if new_parent_prob < parent_prob:\n                return False\n            elif new_parent_prob == parent_prob:\n                if pos < parent_pos:\n                    return False"
add('C02', 'tie-both-pass (drop == branch)', PGF, TIE, "            if new_parent_prob < parent_prob:\n                return False", 'fire', 'C02.R1')
add('C02', 'tie-both-reject (<=)', PGF, TIE, "            if new_parent_prob <= parent_prob:\n                return False", 'fire', 'C02.R1')
add('C02', 'tie-highest-position-wins', PGF, TIE, TIE.replace("if pos < parent_pos:", "if pos > parent_pos:"), 'silent')
add('C02', 'tie-merged-condition', PGF, TIE, "            if new_parent_prob < parent_prob or (new_parent_prob == parent_prob and pos < parent_pos):\n                return False", 'silent')
add('C02', 'tie-early-accept', PGF, TIE, "            if new_parent_prob < parent_prob:\n                return False\n            elif new_parent_prob == parent_prob:\n                return pos > parent_pos", 'fire', 'C02.R1')
add('C02', 'order-flipped', PGF, TIE, TIE.replace("if new_parent_prob < parent_prob:", "if new_parent_prob > parent_prob:"), 'fire', 'C02.R1')
add('C02', 'self-not-skipped', PGF, "            if pos == parent_pos:\n                continue\n\n            # Skip if there is no parent at this position", "            # Skip if there is no parent at this position", 'fire', 'C02.R1')
PRED = "            new_parent = copy.copy(child)\n            new_parent[pos] = (new_parent[pos][0], new_parent[pos][1]-1)\n\n            # Calculate new parent's probability\n            new_parent_prob = self._find_prob(new_parent, base_prob)"
add('C02', 'pred-minus-2', PGF, PRED, PRED.replace("new_parent[pos][1]-1)", "new_parent[pos][1]-2)"), 'fire', 'C02.R2')
add('C02', 'pred-no-copy', PGF, PRED, PRED.replace("copy.copy(child)", "child"), 'fire', 'C02.R4')
add('C02', 'pred-deepcopy', PGF, PRED, PRED.replace("copy.copy(child)", "copy.deepcopy(child)"), 'silent')
add('C02', 'pred-list-copy', PGF, PRED, PRED.replace("copy.copy(child)", "list(child)"), 'silent')
add('C02', 'pred-other-base', PGF, PRED, PRED.replace("self._find_prob(new_parent, base_prob)", "self._find_prob(new_parent, 1.0)"), 'fire', 'C02.R3')
add('C02', 'succ-no-copy', PGF, SUCC, SUCC.replace("copy.copy(parent_pt)", "parent_pt"), 'fire', 'C02.R4')
add('C02', 'break-after-first-child', PGF, "                children_list.append(child_item)\n\n        return children_list", "                children_list.append(child_item)\n                break\n\n        return children_list", 'fire', 'C02.R5')
add('C02', 'positions-skip-first', PGF, "        for pos, item in enumerate(parent_pt):\n\n            parent_type = item[0]\n            parent_index = item[1]\n\n            # If true, there are no children at this level\n            if len(self.grammar[parent_type]) == parent_index +1:\n                continue\n\n            # Create the child node\n            child = copy.copy(parent_pt)\n            child[pos] = (child[pos][0], child[pos][1]+1)\n\n            # Check to see",
    "        for pos, item in enumerate(parent_pt[1:]):\n\n            parent_type = item[0]\n            parent_index = item[1]\n\n            # If true, there are no children at this level\n            if len(self.grammar[parent_type]) == parent_index +1:\n                continue\n\n            # Create the child node\n            child = copy.copy(parent_pt)\n            child[pos] = (child[pos][0], child[pos][1]+1)\n\n            # Check to see", 'fire')
add('C02', 'seed-index-1', PGF, "                pt_item['pt'].append((replacement,0))\n\n            # Calculate the probability\n            pt_item['prob'] = self._find_prob(pt_item['pt'], pt_item['base_prob'])\n\n            pt_list.append(pt_item)",
    "                pt_item['pt'].append((replacement,1))\n\n            # Calculate the probability\n            pt_item['prob'] = self._find_prob(pt_item['pt'], pt_item['base_prob'])\n\n            pt_list.append(pt_item)", 'fire', 'C02.R6')
add('C02', 'lt-flipped does not concern C02', PQF, LT_OLD, "        return self.pt_item['prob'] < other.pt_item['prob']", 'silent')

# ---- C08 ------------------------------------------------------------------------------------------------------
AROUND = "            if new_parent_prob <= max_prob:\n                return True"
add('C08', 'around-strict (pinned defect)', PGF, AROUND, "            if new_parent_prob < max_prob:\n                return True", 'fire', 'C08.R2')
CAND = "        elif parent_prob <= max_prob:"
add('C08', 'candidate-strict', PGF, CAND, "        elif parent_prob < max_prob:", 'fire', 'C08.R2')
add('C08', 'candidate-written-as-not-gt', PGF, CAND, "        elif not (parent_prob > max_prob):", 'silent')
add('C08', 'around-inverted', PGF, "            if not self.is_parent_around(pt_item, max_prob):", "            if self.is_parent_around(pt_item, max_prob):", 'fire', 'C08.R2')
AROUND_SKIP = "        for pos, item in enumerate(child):\n\n            # Skip if there is no parent at this position\n            if item[1] == 0:\n                continue\n\n            # Create the new parent\n            new_parent = copy.copy(child)"
add('C08', 'around-skip-returns', PGF, AROUND_SKIP, AROUND_SKIP.replace("                continue", "                return False"), 'fire', 'C08.R2')
add('C08', 'around-guard-first (nested return under the prob test)', PGF,
    "            if item[1] == 0:\n                continue\n\n            # Create the new parent\n            new_parent = copy.copy(child)\n            new_parent[pos] = (new_parent[pos][0], new_parent[pos][1]-1)\n\n            # Calculate new parent's probability\n            new_parent_prob = self._find_prob(new_parent, pt_item['base_prob'])\n\n            # Check if the new parent should take care of the child\n            if new_parent_prob <= max_prob:\n                return True",
    "            if item[1] != 0:\n                new_parent = copy.copy(child)\n                new_parent[pos] = (new_parent[pos][0], new_parent[pos][1]-1)\n                new_parent_prob = self._find_prob(new_parent, pt_item['base_prob'])\n                if new_parent_prob <= max_prob:\n                    return True", 'silent')
add('C08', 'left-index-zero', PGF, "save_function, left_index = pos)", "save_function, left_index = 0)", 'fire', 'C08.R3')
add('C08', 'left-index-dropped', PGF, "        for pos in range(left_index, parent_len):", "        for pos in range(0, parent_len):", 'fire', 'C08.R3')
add('C08', 'max-not-updated', PQF, "        self.max_probability = queue_item.pt_item['prob']\n", "", 'fire', 'C08.R4')
add('C08', 'uuid-check-dropped', 'pcfg_guesser.py', "            if save_config['rule_info']['uuid'] != pcfg.ruleset_info['uuid']:", "            if False:", 'fire', 'C08.R1')
add('C08', 'uuid-mismatch-continues', 'pcfg_guesser.py', '                print("       Found UUID: " + str(pcfg.ruleset_info[\'uuid\']), file=sys.stderr)\n                print("Exiting...",file=sys.stderr)\n                return',
    '                print("       Found UUID: " + str(pcfg.ruleset_info[\'uuid\']), file=sys.stderr)', 'fire', 'C08.R1')
add('C08', 'save-after-break', CSF, '                self._save_session()\n                print("Exiting...",file=sys.stderr)\n                break', '                print("Exiting...",file=sys.stderr)\n                break', 'fire', 'C08.R4')
add('C08', 'flags-read-with-get', 'pcfg_guesser.py', "program_info['skip_brute'] = save_config.getboolean('rule_info','skip_brute')", "program_info['skip_brute'] = save_config.get('rule_info','skip_brute')", 'fire', 'C08.R5')
add('C08', 'key-not-written', PQF, "        save_config.set('guessing_info', 'min_probability', str(self.min_probability))\n", "", 'fire', 'C08.R5')

VARIANTS = V

# ---- C09 ------------------------------------------------------------------------------------------------------
add('C09', 'banner-bare-print (pinned defect)', 'lib_guesser/banner_info.py', "    print('',file=sys.stderr)\n    print('''    ____ ", "    print()\n    print('''    ____ ", 'fire', 'C09.R1')
add('C09', 'loader-diagnostic-to-stdout', GIO, 'print("Error loading digit terminals",file=sys.stderr)', 'print("Error loading digit terminals")', 'fire', 'C09.R1')
add('C09', 'status-print-to-stdout', 'lib_guesser/status_report.py', 'print("Status Report:",file=sys.stderr)', 'print("Status Report:")', 'fire', 'C09.R1')
add('C09', 'keypress-prompt', CSF, "        user_input = input()", "        user_input = input('> ')", 'fire', 'C09.R1')
add('C09', 'stderr-with-flush', CSF, 'print("Exiting...",file=sys.stderr)\n                break', 'print("Exiting...",file=sys.stderr, flush=True)\n                break', 'silent')
add('C09', 'guess-printed-with-end', PGF, "                print(guess)\n", "                print(guess, end='')\n", 'fire', 'C09.R1')
add('C09', 'limit-lt-0', PGF, "                        limit = limit - 1\n                        if limit <= 0:\n                            return num_guesses\n\n                else:\n                    num_recursive_guesses = self._recursive_guesses(new_guess, pt[1:], limit)\n                    num_guesses += num_recursive_guesses\n                    if limit:",
    "                        limit = limit - 1\n                        if limit < 0:\n                            return num_guesses\n\n                else:\n                    num_recursive_guesses = self._recursive_guesses(new_guess, pt[1:], limit)\n                    num_guesses += num_recursive_guesses\n                    if limit:", 'fire', 'C09.R2')
add('C09', 'omen-limit-not-decremented', PGF, "            if limit:\n                limit = limit - 1\n                if limit <= 0:\n                    return num_guesses\n\n            # Update counter used for status reports and save files",
    "            if limit:\n                if limit <= num_guesses:\n                    return num_guesses\n\n            # Update counter used for status reports and save files", 'fire', 'C09.R2')
add('C09', 'omen-limit-lt-1', PGF, "            if limit:\n                limit = limit - 1\n                if limit <= 0:\n                    return num_guesses\n\n            # Update counter used for status reports and save files",
    "            if limit:\n                limit -= 1\n                if limit < 1:\n                    return num_guesses\n\n            # Update counter used for status reports and save files", 'silent')
add('C09', 'recursive-call-without-limit', PGF, "num_recursive_guesses = self._honeyword_recursive_guess(new_guess, pt[1:], limit)\n                num_guesses += num_recursive_guesses\n                \n", "num_recursive_guesses = self._honeyword_recursive_guess(new_guess, pt[1:])\n                num_guesses += num_recursive_guesses\n                \n", 'fire', 'C09.R3')
add('C09', 'omen-without-limit', PGF, "            return self.omen_generate_guesses(markov_cracker, limit)\n\n        # If it is a capitalization mask", "            return self.omen_generate_guesses(markov_cracker)\n\n        # If it is a capitalization mask", 'fire', 'C09.R3')
add('C09', 'restore-omen-without-limit (pinned finding)', PGF, "        return self.omen_generate_guesses(markov_cracker, limit)\n\n\n    def save_to_file", "        return self.omen_generate_guesses(markov_cracker)\n\n\n    def save_to_file", 'fire', 'C09.R3')
add('C09', 'session-subtracts-one', CSF, "                    limit = limit - num_generated_guesses\n                    if limit <= 0:\n                        print(\"Limit reached. Exiting...\",file=sys.stderr)\n                        break", "                    limit = limit - 1\n                    if limit <= 0:\n                        print(\"Limit reached. Exiting...\",file=sys.stderr)\n                        break", 'fire', 'C09.R2')

# ---- C14 ------------------------------------------------------------------------------------------------------
SEEK_FIXED = "                        total_prob = total_prob - float(split_values[1])\n                        break\n\n                # Reset the file pointer, whether or not a brute force\n                # structure was found\n                file.seek(0)\n"
add('C14', 'seek-only-when-M-found (pinned defect)', GIO, SEEK_FIXED, "                        total_prob = total_prob - float(split_values[1])\n                        file.seek(0)\n                        break\n", 'fire', 'C14.R1')
add('C14', 'no-seek-at-all', GIO, "                file.seek(0)\n", "", 'fire', 'C14.R1')
add('C14', 'seek-before-break-and-after-loop', GIO, SEEK_FIXED, "                        total_prob = total_prob - float(split_values[1])\n                        file.seek(0)\n                        break\n                else:\n                    file.seek(0)\n", 'silent')
add('C14', 'no-renormalisation', GIO, "                prob = float(split_values[1]) / total_prob", "                prob = float(split_values[1])", 'fire', 'C14.R2')
add('C14', 'renormalise-always', GIO, "            if skip_brute:\n                for value in file:", "            if True:\n                for value in file:", 'fire', 'C14.R2')
add('C14', 'drop-M-always', GIO, "                if not skip_brute or 'M' not in new_base['replacements']:", "                if 'M' not in new_base['replacements']:", 'fire', 'C14.R2')
add('C14', 'keep-condition-demorgan', GIO, "                if not skip_brute or 'M' not in new_base['replacements']:", "                if not (skip_brute and 'M' in new_base['replacements']):", 'silent')
add('C14', 'mask-prob-half', GIO, "                        'values': ['L'*length],\n                        'prob': 1.0", "                        'values': ['L'*length],\n                        'prob': 0.5", 'fire', 'C14.R3')
add('C14', 'mask-upper', GIO, "                        'values': ['L'*length],", "                        'values': ['U'*length],", 'fire', 'C14.R3')
add('C14', 'mask-keeps-original-too', GIO, "                        'values': ['L'*length],", "                        'values': ['L'*length, 'U' + 'L'*(length-1)],", 'fire', 'C14.R3')
add('C14', 'grammar-before-load_save (pinned defect)', 'pcfg_guesser.py',
    [("    save_config = None\n    if program_info['cracking_mode'] == 'true_prob_order' and program_info['load_session']:\n        print(\"Restoring previous session: \" + program_info['session_name'],file=sys.stderr)\n        save_config = load_save(save_filename, program_info)\n\n        # Check to make sure it is valid\n        if save_config is None:\n            print(\"Exiting...\",file=sys.stderr)\n            return\n",
      "    save_config = None\n"),
     ("        if save_config is None:\n            save_config = create_save_config(program_info)\n",
      "        if program_info['load_session']:\n            save_config = load_save(save_filename, program_info)\n            if save_config is None:\n                return\n        else:\n            save_config = create_save_config(program_info)\n")], None, 'fire', 'C14.R4')
add('C14', 'grammar-ignores-skip-case', 'pcfg_guesser.py', "            skip_case = program_info['skip_case'],", "            skip_case = False,", 'fire', 'C14.R4')
add('C14', 'flag-restored-with-get', 'pcfg_guesser.py', "program_info['skip_case'] = save_config.getboolean('rule_info','skip_case')", "program_info['skip_case'] = save_config.get('rule_info','skip_case')", 'fire', 'C14.R5')

# ---- C12 ------------------------------------------------------------------------------------------------------
add('C12', 'liveness-exit (pinned defect)', CSF, "            if self.pcfg.should_exit:\n", "            if not user_thread.is_alive():\n", 'fire', 'C12.R1')
add('C12', 'liveness-via-local', CSF, "            if self.pcfg.should_exit:\n", "            alive = user_thread.is_alive()\n            if self.pcfg.should_exit or not alive:\n", 'fire', 'C12.R1')
add('C12', 'quit-on-h', CSF, "            if user_input == 'q':", "            if user_input in ('q', 'h'):", 'fire', 'C12.R2')
add('C12', 'quit-on-eof', CSF, "        user_input = input()\n", "        try:\n            user_input = input()\n        except EOFError:\n            user_input = 'q'\n", 'fire', 'C12.R2')
add('C12', 'quit-flag-set-by-session', CSF, '                print ("Done processing the PCFG. No more guesses to generate",file=sys.stderr)', '                self.pcfg.should_exit = True\n                print ("Done processing the PCFG. No more guesses to generate",file=sys.stderr)', 'fire', 'C12.R2')
add('C12', 'break-before-save', CSF, '                print("Saving Session Info",file=sys.stderr)\n                self._save_session()\n                print("Exiting...",file=sys.stderr)\n                break', '                print("Exiting...",file=sys.stderr)\n                break', 'fire', 'C12.R3')
add('C12', 'poll-flag-in-expansion', PGF, "            for item in self.grammar[pt_type][index]['values']:\n                new_guess = cur_guess + item\n\n                # Figure out if the guess is ready to be printed out or if\n                # there is more to do\n                if len(pt) == 1:\n                    num_guesses += 1\n                    self.print_guess(new_guess)\n\n                    # Check the limit\n                    if limit:\n                        limit = limit - 1\n                        if limit == 0:",
    "            for item in self.grammar[pt_type][index]['values']:\n                if self.should_exit:\n                    return num_guesses\n                new_guess = cur_guess + item\n\n                # Figure out if the guess is ready to be printed out or if\n                # there is more to do\n                if len(pt) == 1:\n                    num_guesses += 1\n                    self.print_guess(new_guess)\n\n                    # Check the limit\n                    if limit:\n                        limit = limit - 1\n                        if limit == 0:", 'fire', 'C12.R3')
add('C12', 'status-thread-writes-session-state', 'lib_guesser/status_report.py', '        print("Status Report:",file=sys.stderr)\n', '        print("Status Report:",file=sys.stderr)\n        pcfg.omen_guess_num = 0\n', 'fire', 'C12.R4')
add('C12', 'status-thread-local-only', 'lib_guesser/status_report.py', '        print("Status Report:",file=sys.stderr)\n', '        print("Status Report:",file=sys.stderr)\n        lines = []\n        lines.append("x")\n', 'silent')

# ---- C15 ------------------------------------------------------------------------------------------------------
add('C15', 'one-shot-key-kept (pinned defect)', CSF, "                self.save_config.remove_option('guessing_info','omen_guess_number')\n", "", 'fire', 'C15.R1')
add('C15', 'one-shot-key-removed-only-if-limit', CSF, "                self.save_config.remove_option('guessing_info','omen_guess_number')\n", "                if limit:\n                    self.save_config.remove_option('guessing_info','omen_guess_number')\n", 'fire', 'C15.R1')
OMEN_TAIL = "            # Check to see if the user wanted to exit the program\n            if self.should_exit:"
add('C15', 'next-guess-before-quit-test', PGF, OMEN_TAIL, "            guess = markov_cracker.next_guess()\n" + OMEN_TAIL, 'fire', 'C15.R2')
add('C15', 'omn-name-differs', PGF, "        markov_cracker.load_session(self.save_file[:-4]+'.omn', pt_item)", "        markov_cracker.load_session(self.save_file+'.omn', pt_item)", 'fire', 'C15.R2')
add('C15', 'pickle-order-swapped', 'lib_guesser/omen/markov_cracker.py', "            pickle.dump(self.cur_ip, file)\n            pickle.dump(self.cur_len, file)", "            pickle.dump(self.cur_len, file)\n            pickle.dump(self.cur_ip, file)", 'fire', 'C15.R3')
add('C15', 'first-guess-not-restored', 'lib_guesser/omen/markov_cracker.py', "            self.cur_guess.first_guess = first_guess\n", "", 'fire', 'C15.R3')
add('C15', 'omen-exit-cleared-after-restore', CSF, "                self.save_config.remove_option('guessing_info','omen_guess_number')\n", "                self.save_config.remove_option('guessing_info','omen_guess_number')\n                self.pcfg.omen_exit = False\n", 'fire', 'C15.R4')
add('C15', 'marker-always-written', CSF, "        if self.pcfg.omen_exit:\n            self.save_config.set(", "        if True:\n            self.save_config.set(", 'fire', 'C15.R4')

# ---- C04 ------------------------------------------------------------------------------------------------------
add('C04', 'values-skip-first', PGF, "            for item in self.grammar[pt_type][index]['values']:\n                new_guess = cur_guess + item\n\n                # Figure out if the guess is ready to be printed out or if\n                # there is more to do\n                if len(pt) == 1:\n                    num_guesses += 1",
    "            for item in self.grammar[pt_type][index]['values'][1:]:\n                new_guess = cur_guess + item\n\n                # Figure out if the guess is ready to be printed out or if\n                # there is more to do\n                if len(pt) == 1:\n                    num_guesses += 1", 'fire', 'C04.R2')
add('C04', 'concat-prepends', PGF, "                new_guess = cur_guess + item\n\n                # Figure out if the guess is ready to be printed out or if\n                # there is more to do\n                if len(pt) == 1:\n                    num_guesses += 1\n                    self.print_guess(new_guess)\n\n                    # Check the limit\n                    if limit:\n                        limit = limit - 1\n                        if limit == 0:",
    "                new_guess = item + cur_guess\n\n                # Figure out if the guess is ready to be printed out or if\n                # there is more to do\n                if len(pt) == 1:\n                    num_guesses += 1\n                    self.print_guess(new_guess)\n\n                    # Check the limit\n                    if limit:\n                        limit = limit - 1\n                        if limit == 0:", 'fire', 'C04.R2')
MASKHEAD = "            mask_len = len(self.grammar[pt_type][index]['values'][0])\n\n            # Split off the part of the word we need to modify with the mask\n            start_word = [cur_guess[:- mask_len]]\n            end_word = cur_guess[- mask_len:]\n\n            for mask in self.grammar[pt_type][index]['values']:"
add('C04', 'mask-prefix-off-by-one', PGF, MASKHEAD, MASKHEAD.replace("[cur_guess[:- mask_len]]", "[cur_guess[:- mask_len + 1]]"), 'fire', 'C04.R3')
add('C04', 'mask-tail-whole-guess', PGF, MASKHEAD, MASKHEAD.replace("end_word = cur_guess[- mask_len:]", "end_word = cur_guess"), 'fire', 'C04.R3')
add('C04', 'mask-upper-whole-then-index', PGF, "            for mask in self.grammar[pt_type][index]['values']:\n\n                # Apply the capitalization mask\n                new_end = []\n                index = 0\n                for item in mask:\n                    if item == 'L':\n                        new_end.append(end_word[index])\n                    else:\n                        new_end.append(end_word[index].upper())",
    "            upper_word = end_word.upper()\n            for mask in self.grammar[pt_type][index]['values']:\n\n                # Apply the capitalization mask\n                new_end = []\n                index = 0\n                for item in mask:\n                    if item == 'L':\n                        new_end.append(end_word[index])\n                    else:\n                        new_end.append(upper_word[index])", 'fire', 'C04.R3')
add('C04', 'count-not-incremented', PGF, "                if len(pt) == 1:\n                    num_guesses += 1\n                    self.print_guess(new_guess)\n\n                    # Check the limit\n                    if limit:\n                        limit = limit - 1\n                        if limit == 0:", "                if len(pt) == 1:\n                    self.print_guess(new_guess)\n\n                    # Check the limit\n                    if limit:\n                        limit = limit - 1\n                        if limit == 0:", 'fire', 'C04.R4')
add('C04', 'recursive-count-dropped', PGF, "                    num_recursive_guesses = self._recursive_guesses(new_guess, pt[1:], limit)\n                    num_guesses += num_recursive_guesses\n                    \n", "                    num_recursive_guesses = self._recursive_guesses(new_guess, pt[1:], limit)\n                    \n", 'fire', 'C04.R4')
add('C04', 'oserror-swallowed', PGF, '                print("Halting guess generation and exiting",file=sys.stderr)\n                raise OSError', '                print("Halting guess generation and exiting",file=sys.stderr)', 'fire', 'C04.R4')
GROUP = "                if prob == prev_prob:\n                    grammar_section[-1]['values'].append(value)"
add('C04', 'grouping-ge (same behaviour on sorted files)', GIO, GROUP, GROUP.replace("prob == prev_prob", "prob >= prev_prob"), 'silent')
add('C04', 'grouping-tolerance', GIO, GROUP, GROUP.replace("prob == prev_prob", "abs(prob - prev_prob) < 1e-12"), 'fire', 'C04.R5')
add('C04', 'grouping-le-merges-everything', GIO, GROUP, GROUP.replace("prob == prev_prob", "prob <= prev_prob"), 'fire', 'C04.R5')
add('C04', 'group-prob-not-advanced', GIO, "                else:\n                    prev_prob = prob\n\n                    item = {", "                else:\n                    item = {", 'fire', 'C04.R5')
add('C04', 'dispatch-drops-C', PGF, "        # If it is a capitalization mask\n        elif category == 'C':\n\n            mask_len = len(self.grammar[pt_type][index]['values'][0])\n\n            # Split off the part of the word we need to modify with the mask\n            start_word = [cur_guess[:- mask_len]]\n            end_word = cur_guess[- mask_len:]\n\n            for mask in", "        # If it is a capitalization mask\n        elif category == 'c':\n\n            mask_len = len(self.grammar[pt_type][index]['values'][0])\n\n            # Split off the part of the word we need to modify with the mask\n            start_word = [cur_guess[:- mask_len]]\n            end_word = cur_guess[- mask_len:]\n\n            for mask in", 'fire', 'C04.R1')

# ---- C03 ------------------------------------------------------------------------------------------------------
SPD = 'lib_trainer/save_pcfg_data.py'
CFG_ = 'lib_trainer/config_file.py'
PARS = 'lib_trainer/pcfg_password_parser.py'
ALPHA = 'lib_trainer/detection_rules/alpha_detection.py'
add('C03', 'folders-swapped', SPD, [('folder = os.path.join(base_directory, "Digits")', 'folder = os.path.join(base_directory, "Other_")'), ('folder = os.path.join(base_directory, "Other")', 'folder = os.path.join(base_directory, "Digits")'), ('"Other_"', '"Other"')], None, 'fire', 'C03.R1')
add('C03', 'counters-swapped-in-parse', PARS, [("self._update_counter_len_indexed(self.count_digits, found_digit_strings)", "self._update_counter_len_indexed(self.count_other, found_digit_strings)"), ("self._update_counter_len_indexed(self.count_other, found_other_strings)", "self._update_counter_len_indexed(self.count_digits, found_other_strings)")], None, 'fire', 'C03.R1')
add('C03', 'config-name-changed', CFG_, 'config.set(section, "name", "K")', 'config.set(section, "name", "k")', 'fire', 'C03.R1')
add('C03', 'config-directory-typo', CFG_, 'config.set(section, "directory", "Keyboard")', 'config.set(section, "directory", "Keyboards")', 'fire', 'C03.R1')
add('C03', 'config-filelist-from-other-counter', CFG_, "add_digits(config,create_filename_list(pcfg_parser.count_digits))", "add_digits(config,create_filename_list(pcfg_parser.count_other))", 'fire', 'C03.R1')
add('C03', 'year-file-renamed', SPD, "year_grouping = {'1': pcfg_parser.count_years}", "year_grouping = {'years': pcfg_parser.count_years}", 'fire', 'C03.R1')
add('C03', 'loader-prefix-wrong', GIO, "        name = config.get('name') + file.split('.')[0]\n        grammar[name] = []", "        name = config.get('directory')[0] + file.split('.')[0]\n        grammar[name] = []", 'fire', 'C03.R1')
add('C03', 'loader-skips-keyboard', GIO, "    if not _load_from_multiple_files(grammar, config['BASE_K'], base_directory, encoding):", "    if False and not _load_from_multiple_files(grammar, config['BASE_K'], base_directory, encoding):", 'fire', 'C03.R1')
add('C03', 'mask-from-lowered-string', ALPHA, "                    for letter in section[0][current_start:current_start+len(word)]:", "                    for letter in working_string[current_start:current_start+len(word)]:", 'fire', 'C03.R2')
add('C03', 'mask-not-advanced', ALPHA, "                    current_start +=len(word)\n", "", 'fire', 'C03.R2')
add('C03', 'label-len-plus-1', ALPHA, "'A' + str(len(word))", "'A' + str(len(word) + 1)", 'fire', 'C03.R2')
add('C03', 'C-inserted-before-A', GIO, "                replacement.insert(i+1,'C' + len_str)", "                replacement.insert(i,'C' + len_str)", 'fire', 'C03.R3')
add('C03', 'C-with-wrong-length', GIO, "                len_str = replacement[i][1:]", "                len_str = replacement[i][2:]", 'fire', 'C03.R3')

# ---- C07 ------------------------------------------------------------------------------------------------------
TFI = 'lib_trainer/trainer_file_input.py'
OFO = 'lib_trainer/omen/omen_file_output.py'
OSCF = 'lib_scorer/omen_scorer.py'
SGIOF = 'lib_scorer/grammar_io.py'
OIOF = 'lib_guesser/omen/input_file_io.py'
add('C07', 'accept-U+2029 (pinned defect)', TFI, '    if u"\\u2029" in input_password:\n        return False\n', '', 'fire', 'C07.R1')
add('C07', 'accept-U+0085', TFI, '    if u"\\u0085" in input_password:\n        return False\n', '', 'fire', 'C07.R1')
add('C07', 'explicit-tab-test-removed (TAB is still in the control range)', TFI, '    if "\\t" in input_password:\n        return False\n', '', 'silent')
add('C07', 'control-range-starts-at-1', TFI, 'for invalid_hex in range (0x0,0x20):', 'for invalid_hex in range (0x0,0x1c):', 'fire', 'C07.R1')
add('C07', 'validate-before-hex-decode', TFI, [("                # Checks to see if the password is valid\n                if not check_valid(clean_password):\n                    continue\n", ""),
    ("                # Check for a $HEX[] encoded password    \n", "                if not check_valid(clean_password):\n                    continue\n\n                # Check for a $HEX[] encoded password    \n")], None, 'fire', 'C07.R1')
add('C07', 'scorer-omen-locale-encoding (pinned defect)', OSCF, "        full_file_path = os.path.join(base_directory, \"Omen\", \"IP.level\")\n\n        # Open the file for reading\n        try:\n            with open(full_file_path, 'r', encoding=self.encoding) as file:", "        full_file_path = os.path.join(base_directory, \"Omen\", \"IP.level\")\n\n        # Open the file for reading\n        try:\n            with open(full_file_path, 'r') as file:", 'fire', 'C07.R2')
add('C07', 'keyspace-locale-encoding (pinned defect)', GIO, "    with open(filename, 'r', encoding = encoding) as file:", "    with open(filename, 'r') as file:", 'fire', 'C07.R2')
add('C07', 'scorer-grammar-ruleset-encoding (pinned defect)', SGIOF, "_load_from_file(grammar.count_base_structures, filename, 'ascii')", "_load_from_file(grammar.count_base_structures, filename, grammar.encoding)", 'fire', 'C07.R2')
add('C07', 'guesser-literal-utf8', GIO, "        with codecs.open(filename, 'r', encoding= encoding, errors= 'surrogateescape') as file:", "        with codecs.open(filename, 'r', encoding= 'utf-8', errors= 'surrogateescape') as file:", 'fire', 'C07.R2')
add('C07', 'omen-alphabet-written-utf8', OFO, "        with codecs.open(full_path, 'w', encoding=encoding) as alphafile:", "        with codecs.open(full_path, 'w', encoding='utf-8') as alphafile:", 'fire', 'C07.R2')
add('C07', 'prob-written-with-format', 'lib_trainer/save_pcfg_data.py', "datafile.write(str(item[0]) + '\\t' + str(item[1])+'\\n')", "datafile.write(str(item[0]) + '\\t' + '%.6f' % item[1] + '\\n')", 'fire', 'C07.R3')
add('C07', 'fields-swapped', 'lib_trainer/save_pcfg_data.py', "datafile.write(str(item[0]) + '\\t' + str(item[1])+'\\n')", "datafile.write(str(item[1]) + '\\t' + str(item[0])+'\\n')", 'fire', 'C07.R3')
add('C07', 'guesser-strips-line', GIO, "                split_values = line.rstrip().split(\"\\t\")\n\n                # Sanity checking", "                split_values = line.strip().split(\"\\t\")\n\n                # Sanity checking", 'fire', 'C07.R5')
add('C07', 'omen-reader-rstrip-whitespace', OIOF, "                line = line.rstrip('\\n\\r').split('\\t')", "                line = line.rstrip().split('\\t')", 'fire', 'C07.R5')
add('C07', 'no-wipe-for-empty-category', 'lib_trainer/save_pcfg_data.py', "    try:\n        for root, dirs, files in os.walk(folder):", "    if not counter_list:\n        return True\n\n    try:\n        for root, dirs, files in os.walk(folder):", 'fire', 'C07.R6')
add('C07', 'omen-prob-file-renamed-on-reader', GIO, 'full_path = os.path.join(base_directory, "Omen", "pcfg_omen_prob.txt")', 'full_path = os.path.join(base_directory, "Omen", "omen_prob.txt")', 'fire', 'C07.R7')

# ---- C06 ------------------------------------------------------------------------------------------------------
CPF = 'lib_trainer/calculate_probabilities.py'
RTF = 'lib_trainer/run_trainer.py'
add('C06', 'divide-by-number-of-items', CPF, "    total_count = sum(counter.values())", "    total_count = len(counter)", 'fire', 'C06.R1')
add('C06', 'items-order', CPF, "    prob_list = counter.most_common()", "    prob_list = list(counter.items())", 'fire', 'C06.R1')
add('C06', 'coverage-N-times-c', RTF, "markov_instances = (num_valid_passwords / program_info['coverage']) - num_valid_passwords", "markov_instances = (num_valid_passwords * program_info['coverage']) - num_valid_passwords", 'fire', 'C06.R4')
add('C06', 'coverage-equivalent-form', RTF, "markov_instances = (num_valid_passwords / program_info['coverage']) - num_valid_passwords", "markov_instances = num_valid_passwords * (1 / program_info['coverage'] - 1)", 'silent')
add('C06', 'coverage-guard-on-zero', RTF, "    if program_info['coverage'] != 1:\n", "    if program_info['coverage'] != 0:\n", 'fire', 'C06.R4')
add('C06', 'unsupported-counted', PARS, "        if is_supported:\n            self.count_base_structures[base_structure] += 1", "        self.count_base_structures[base_structure] += 1", 'fire', 'C06.R5')
add('C06', 'supported-flag-last-wins', 'lib_trainer/base_structure.py', "        if section[1][0] in ['W','E']:\n            is_supported = False", "        is_supported = section[1][0] not in ['W','E']", 'fire', 'C06.R5')
add('C06', 'no-wipe', SPD, "            for filename in files:\n                os.unlink(os.path.join(root, filename))", "            for filename in files:\n                pass", 'fire', 'C06.R3')
add('C06', 'timestamp-in-config', CFG_, '    config.set(section, "uuid", str(uuid.uuid4()))', '    config.set(section, "uuid", str(uuid.uuid4()))\n    import time\n    config.set(section, "trained_at", str(time.time()))', 'fire', 'C06.R6')
add('C06', 'write-skips-rare-items', SPD, "            for item in prob_list:\n                datafile.write(", "            for item in prob_list:\n                if item[1] < 1e-9:\n                    continue\n                datafile.write(", 'fire', 'C06.R2')

# ---- C19 ------------------------------------------------------------------------------------------------------
add('C19', 'third-pass-without-prefixcount', RTF, "    # Perform third loop through training data\n    # Re-Initialize the file input to read passwords from\n    file_input = TrainerFileInput(\n                    program_info['training_file'], \n                    program_info['encoding'],\n                    program_info['prefixcount'])",
    "    # Perform third loop through training data\n    # Re-Initialize the file input to read passwords from\n    file_input = TrainerFileInput(\n                    program_info['training_file'], \n                    program_info['encoding'])", 'fire', 'C19.R1')
add('C19', 'strip-both-ends', TFI, "clean_password = password.rstrip('\\r\\n')", "clean_password = password.strip()", 'fire', 'C19.R3')
add('C19', 'rstrip-whitespace', TFI, "clean_password = password.rstrip('\\r\\n')", "clean_password = password.rstrip()", 'fire', 'C19.R3')
add('C19', 'rstrip-lf-only-arg-order', TFI, "clean_password = password.rstrip('\\r\\n')", "clean_password = password.rstrip('\\n\\r')", 'silent')
add('C19', 'count-plus-one', TFI, "                self.num_passwords += n\n", "                self.num_passwords += 1\n", 'fire', 'C19.R3')
add('C19', 'prefix-split-whitespace', TFI, "clean_password = ' '.join(clean_password.lstrip().split(' ')[1:])", "clean_password = clean_password.lstrip().split(None, 1)[1]", 'fire', 'C19.R3')
add('C19', 'hex-decoded-as-utf8', TFI, "bytes.fromhex(clean_password[5:-1]).decode(self.encoding)", "bytes.fromhex(clean_password[5:-1]).decode('utf-8')", 'fire', 'C19.R3')
add('C19', 'bad-count-raises', TFI, "                    except ValueError:\n                        continue", "                    except ValueError:\n                        raise", 'fire', 'C19.R4')
add('C19', 'invalid-line-ends-pass', TFI, "                if not check_valid(clean_password):\n                    continue", "                if not check_valid(clean_password):\n                    break", 'fire', 'C19.R4')

# ---- C05 ------------------------------------------------------------------------------------------------------
DIG = 'lib_trainer/detection_rules/digit_detection.py'
YEAR = 'lib_trainer/detection_rules/year_detection.py'
CTX_ = 'lib_trainer/detection_rules/context_sensitive_detection.py'
OTH = 'lib_trainer/detection_rules/other_detection.py'
KB = 'lib_trainer/detection_rules/keyboard_walk.py'
MWD = 'lib_trainer/detection_rules/multiword_detector.py'
add('C05', 'splice-at-i+1', DIG, "                section_list[index:index] = parsing", "                section_list[index+1:index+1] = parsing", 'fire', 'C05.R1')
add('C05', 'splice-as-slice-replace', DIG, "                del section_list[index]\n                section_list[index:index] = parsing", "                section_list[index:index+1] = parsing", 'silent')
add('C05', 'detector-on-labelled-sections', OTH, "        if section_list[index][1] is None:", "        if True:", 'fire', 'C05.R5')
add('C05', 'year-detector-on-labelled-sections', YEAR, "        if section_list[index][1] is None:", "        if section_list[index][1] != 'W':", 'fire', 'C05.R1')
add('C05', 'index-skips-two', YEAR, "                continue\n\n        index += 1", "                continue\n\n        index += 2", 'fire', 'C05.R1')
add('C05', 'digit-label-len+1', DIG, "'D' + str(len(found_digit))", "'D' + str(len(found_digit) + 1)", 'fire', 'C05.R2')
add('C05', 'digit-suffix-from-end_pos', DIG, "parsing.append((section[0][end_pos+1:],None))", "parsing.append((section[0][end_pos:],None))", 'fire', 'C05.R2')
add('C05', 'digit-prefix-guard-dropped', DIG, "                if start_pos !=0:\n                    parsing.append((section[0][0:start_pos],None))", "                parsing.append((section[0][0:start_pos],None))", 'fire', 'C05.R2')
add('C05', 'digit-suffix-guard-off-by-one', DIG, "if end_pos != len(section[0]) -1:", "if end_pos != len(section[0]):", 'fire', 'C05.R2')
add('C05', 'digit-suffix-guard-equivalent', DIG, "if end_pos != len(section[0]) -1:", "if end_pos + 1 < len(section[0]):", 'silent')
add('C05', 'year-slice-5', YEAR, "parsing.append((working_string[start_index:start_index+4],'Y1'))", "parsing.append((working_string[start_index:start_index+5],'Y1'))", 'fire', 'C05.R2')
add('C05', 'context-suffix-guard-le', CTX_, "if start_index + len(replacement) < len(working_string):", "if start_index + len(replacement) <= len(working_string):", 'fire', 'C05.R2')
add('C05', 'other-before-digit', PARS, [("        found_digit_strings = digit_detection(section_list)\n", "        found_digit_strings_ = None\n"), ("        found_other_strings = other_detection(section_list)\n", "        found_other_strings = other_detection(section_list)\n        found_digit_strings = digit_detection(section_list)\n")], None, 'fire', 'C05.R5')
add('C05', 'other-labels-wrong-length', OTH, "'O' + str(len(section_list[index][0]))", "'O' + str(len(section_list[index]))", 'fire', 'C05.R5')
add('C05', 'keyboard-threshold-3', KB, "def detect_keyboard_walk(password, min_keyboard_run=4):", "def detect_keyboard_walk(password, min_keyboard_run=3):", 'fire', 'C05.R8')
add('C05', 'multiword-overlapping-parts', MWD, "return [alpha_string[0:index], alpha_string[index:]]", "return [alpha_string[0:index], alpha_string[index-1:]]", 'fire', 'C05.R4')
add('C05', 'multiword-threshold-gt', MWD, "            if self._get_count(alpha_string[0:index]) >= self.threshold:", "            if self._get_count(alpha_string[0:index]) > 0:", 'fire', 'C05.R4')
add('C05', 'counters-swapped', PARS, [("self._update_counter_len_indexed(self.count_digits, found_digit_strings)", "self._update_counter_len_indexed(self.count_other, found_digit_strings)")], None, 'fire', 'C05.R6')
add('C05', 'email-index-space-known-only', 'lib_trainer/detection_rules/email_detection.py', "    working_string = section[0].lower()", "    working_string = section[0].lower()  ", 'silent')

# ---- C20 ------------------------------------------------------------------------------------------------------
ERF = 'edit_rules.py'
add('C20', 'regex-0-3 (pinned defect)', ERF, [("        line = re.findall('[A-Z][0-9]*', line)\n        if not line:\n            print(f'Line containing invalid structure found {line}. Skipping.')\n            continue\n        \n        total_length = 0", "        line = re.findall('[A-Z][0-9]{0,3}', line)\n        if not line:\n            print(f'Line containing invalid structure found {line}. Skipping.')\n            continue\n        \n        total_length = 0")], None, 'fire', 'C20.R2')
add('C20', 'second-write-target', ERF, "    with open(grammar_file, 'w') as grammar_fp:", "    open(grammar_file + '.bak', 'w').write(grammar)\n    with open(grammar_file, 'w') as grammar_fp:", 'fire', 'C20.R1')
add('C20', 'copy-with-hardlinks', ERF, "    shutil.copytree(rule_dir, output_dir)", "    shutil.copytree(rule_dir, output_dir, copy_function=os.link)", 'fire', 'C20.R1')
add('C20', 'copy-not-selected', ERF, "        config['rule'] = config['copy']\n", "", 'fire', 'C20.R1')
add('C20', 'year-counted-as-2', ERF, "            elif x[0] == 'Y':\n                total_length += 4", "            elif x[0] == 'Y':\n                total_length += 2", 'fire', 'C20.R3')
add('C20', 'digits-counted-as-1', ERF, "            elif x[0] == 'D':\n                total_length += int(x[1:])", "            elif x[0] == 'D':\n                total_length += 1", 'fire', 'C20.R3')
add('C20', 'max-length-strict', ERF, "        elif total_length >= min_length and total_length <= max_length:", "        elif total_length >= min_length and total_length < max_length:", 'fire', 'C20.R5')
add('C20', 'min-length-strict', ERF, "        elif total_length >= min_length and not max_length:", "        elif total_length > min_length and not max_length:", 'fire', 'C20.R5')
add('C20', 'length-kernel-reordered-equivalent', ERF, "        elif total_length >= min_length and total_length <= max_length:", "        elif min_length <= total_length <= max_length:", 'silent')
add('C20', 'terminal-set-any-instead-of-all', ERF, "            if x[0] not in terminal_set:\n                skip = True", "            if x[0] in terminal_set:\n                skip = False", 'fire', 'C20.R5')
add('C20', 'prob-rewritten-rounded', ERF, [("        if not skip:\n            return_grammar += ''.join(line) + '\\t' + prob + '\\n'", "        if not skip:\n            return_grammar += ''.join(line) + '\\t' + str(round(float(prob), 6)) + '\\n'")], None, 'fire', 'C20.R4')

# ---- C17 ------------------------------------------------------------------------------------------------------
WLF = 'lib_princeling/wordlist_generation.py'
add('C17', 'no-limit-passed (pinned defect)', WLF, "num_generated_guesses += pcfg.create_guesses(pt_item['pt'], limit = limit)", "num_generated_guesses += pcfg.create_guesses(pt_item['pt'])", 'fire', 'C17.R1')
add('C17', 'loop-le', WLF, "while max_size is None or num_generated_guesses < max_size:", "while max_size is None or num_generated_guesses <= max_size:", 'fire', 'C17.R1')
add('C17', 'limit-is-max-size', WLF, "                limit = max_size - num_generated_guesses", "                limit = max_size", 'fire', 'C17.R1')
add('C17', 'file-writer-no-newline', PGF, "        self.output_file.write(guess)\n        self.output_file.write('\\n')", "        self.output_file.write(guess)", 'fire', 'C17.R2')
add('C17', 'prince-folder-default', 'prince_ling.py', '            base_structure_folder = "Prince",\n', '', 'fire', 'C17.R3')
add('C17', 'prince-tally-skips-unlabelled', 'lib_trainer/prince_metrics.py', "    for item in section_list:\n        count_prince[item[1]] += 1", "    for item in section_list:\n        if item[1][0] != 'O':\n            count_prince[item[1]] += 1", 'fire', 'C17.R4')

# ---- C16 ------------------------------------------------------------------------------------------------------
HSF_ = 'lib_guesser/honeyword_session.py'
add('C16', 'weight-without-group-size', PGF, "cur_prob += self.grammar[pt_type][index]['prob'] * len(self.grammar[pt_type][index]['values'])", "cur_prob += self.grammar[pt_type][index]['prob']", 'fire', 'C16.R1')
add('C16', 'weight-operands-swapped', PGF, "cur_prob += self.grammar[pt_type][index]['prob'] * len(self.grammar[pt_type][index]['values'])", "cur_prob += len(self.grammar[pt_type][index]['values']) * self.grammar[pt_type][index]['prob']", 'silent')
add('C16', 'first-value-instead-of-choice', PGF, "            item = random.choice(self.grammar[pt_type][index]['values'])\n            new_guess = cur_guess + item", "            item = self.grammar[pt_type][index]['values'][0]\n            new_guess = cur_guess + item", 'fire', 'C16.R2')
add('C16', 'choice-over-half-the-group', PGF, "            mask = random.choice(self.grammar[pt_type][index]['values'])", "            mask = random.choice(self.grammar[pt_type][index]['values'][:2])", 'fire', 'C16.R2')
add('C16', 'seed-from-time', HSF_, "            random.seed(self.random_seed)", "            random.seed(self.random_seed + int(time.time()))", 'fire', 'C16.R3')
add('C16', 'random-walk-seed-random', HSF_, "            self.random_seed = 1\n", "            self.random_seed = random.randint(0,1000)\n", 'fire', 'C16.R3')
add('C16', 'seed-once-before-loop', HSF_, [("        while True:\n\n            # Intialize the random number generator", "        random.seed(self.random_seed)\n        while True:\n\n            # Intialize the random number generator"), ("            random.seed(self.random_seed)\n            \n", "            \n")], None, 'silent')
add('C16', 'no-seed', HSF_, "            random.seed(self.random_seed)\n", "", 'fire', 'C16.R3')
add('C16', 'honeyword-limit-not-decremented', HSF_, "                    limit = limit - num_generated_guesses\n                    if limit <= 0:\n                        break", "                    if limit <= num_guess_current:\n                        break", 'fire', 'C16.R4')

# ---- C10 ------------------------------------------------------------------------------------------------------
OPTF = 'lib_guesser/omen/optimizer.py'
GSF = 'lib_guesser/omen/guess_structure.py'
MCF_ = 'lib_guesser/omen/markov_cracker.py'
add('C10', 'lookup-without-copy', OPTF, "return True, self.custom_copy( self.tmto_lookup[length][ip_ngram][target_level] )", "return True, self.tmto_lookup[length][ip_ngram][target_level]", 'fire', 'C10.R1')
add('C10', 'update-without-copy', OPTF, "self.tmto_lookup[length][ip_ngram][target_level] = self.custom_copy(parse_tree)", "self.tmto_lookup[length][ip_ngram][target_level] = parse_tree", 'fire', 'C10.R1')
add('C10', 'shallow-copy', OPTF, "            return [x[:] for x in input_list]", "            return list(input_list)", 'fire', 'C10.R1')
LOOKUP_OLD = "        try:\n            return True, self.custom_copy( self.tmto_lookup[length][ip_ngram][target_level] )\n        except KeyError:\n            return False, None"
add('C10', 'lookup-get-miss-as-hit', OPTF, LOOKUP_OLD, "        levels = self.tmto_lookup[length].get(ip_ngram)\n        if levels is None:\n            return False, None\n\n        return True, self.custom_copy(levels.get(target_level))", 'fire', 'C10.R12')
add('C10', 'lookup-get-with-membership *', OPTF, LOOKUP_OLD, "        levels = self.tmto_lookup[length].get(ip_ngram)\n        if levels is None or target_level not in levels:\n            return False, None\n        return True, self.custom_copy(levels[target_level])", 'silent')
add('C04', 'lookup-get-miss-as-hit', OPTF, LOOKUP_OLD, "        levels = self.tmto_lookup[length].get(ip_ngram)\n        if levels is None:\n            return False, None\n\n        return True, self.custom_copy(levels.get(target_level))", 'fire', 'C04.R16')
OPT_INIT = "        self.tmto_lookup = []\n        for i in range(self.max_length + 1):"
add('C10', 'class-level-cache (shared by every Optimizer)', OPTF, "class Optimizer:\n", "class Optimizer:\n    tmto_lookup = []\n", 'silent')
add('C10', 'class-level-cache-not-rebound', OPTF, [("class Optimizer:\n", "class Optimizer:\n    tmto_lookup = []\n"), (OPT_INIT, "        for i in range(len(self.tmto_lookup), self.max_length + 1):")], None, 'fire', 'C10.R11')
add('C10', 'deep-copy', OPTF, "            return [x[:] for x in input_list]", "            return [list(x) for x in input_list]", 'silent')
add('C10', 'key-uses-current-level', GSF, "                        self.optimizer.update(ip, length, optimize_level_target, result)", "                        self.optimizer.update(ip, length, cur_level, result)", 'fire', 'C10.R2')
add('C10', 'one-construction-loses-ip-level', MCF_, [("                    target_level = self.target_level - self.cur_len[0] - self.cur_ip[0],\n                    optimizer = self.optimizer,\n                    )\n                return True\n\n            # No valid items at this level, check if we can go up a level\n            level += 1\n            index = 0\n            if level > self.max_level:\n                return False\n            elif level > working_target:", "                    target_level = self.target_level - self.cur_len[0],\n                    optimizer = self.optimizer,\n                    )\n                return True\n\n            # No valid items at this level, check if we can go up a level\n            level += 1\n            index = 0\n            if level > self.max_level:\n                return False\n            elif level > working_target:")], None, 'fire', 'C10.R3')
add('C10', 'budget-clamped', MCF_, [("                target_level = self.target_level  - self.cur_len[0] - self.cur_ip[0],\n                optimizer = self.optimizer,\n                )\n\n        # Grab the next guess", "                target_level = max(self.target_level  - self.cur_len[0] - self.cur_ip[0], 0),\n                optimizer = self.optimizer,\n                )\n\n        # Grab the next guess")], None, 'fire', 'C10.R3')

# ---- C11 ------------------------------------------------------------------------------------------------------
EVP = 'lib_trainer/omen/evaluate_password.py'
add('C11', 'scorer-loop-strict', OSCF, "            while end_pos <= pass_len:", "            while end_pos < pass_len:", 'fire', 'C11.R1')
add('C11', 'scorer-no-preseed', OSCF, "        self.ln = ['10']", "        self.ln = []", 'fire', 'C11.R2')
add('C11', 'scorer-ip-slice-short', OSCF, "            chunk = password[0:self.ngram-1]", "            chunk = password[0:self.ngram-2]", 'fire', 'C11.R1')
add('C11', 'trainer-upper-bound-exclusive', EVP, "    if pw_len < omen_trainer.min_length or pw_len > omen_trainer.max_length:", "    if pw_len < omen_trainer.min_length or pw_len >= omen_trainer.max_length:", 'fire', 'C11.R1')
add('C11', 'guesser-min-length-strict', OIOF, "                if (cur_length >= min_size):", "                if (cur_length > min_size):", 'fire', 'C11.R5')
add('C11', 'guesser-counts-from-zero', OIOF, "            cur_length = 1\n", "            cur_length = 0\n", 'fire', 'C11.R2')
add('C11', 'guesser-transition-count-off', OIOF, "grammar[name][level].append(cur_length - (min_size -1))", "grammar[name][level].append(cur_length - min_size)", 'fire', 'C11.R3')
add('C11', 'ip-fields-swapped-on-write', OFO, 'file.write(str(data[\'ip_level\'])+ "\\t" + key + "\\n")', 'file.write(key + "\\t" + str(data[\'ip_level\']) + "\\n")', 'fire', 'C11.R7')
add('C11', 'ngram-loader-rstrip', OIOF, "                line = line.rstrip('\\n\\r').split('\\t')", "                line = line.rstrip().split('\\t')", 'fire', 'C11.R6')

# ---- C18 ------------------------------------------------------------------------------------------------------
add('C18', 'length-le-ngram (pinned defect)', EVP, "                    if length < omen_trainer.ngram:", "                    if length <= omen_trainer.ngram:", 'fire', 'C18.R1')
add('C18', 'level-minus-ip-strict (pinned defect)', EVP, "            if level_minus_ip >= 0:", "            if level_minus_ip > 0:", 'fire', 'C18.R1')
add('C18', 'ln-strict', EVP, "                    if length_info[0] <= level_minus_ip:", "                    if length_info[0] < level_minus_ip:", 'fire', 'C18.R1')
add('C18', 'guards-rewritten-equivalently', EVP, "            if level_minus_ip >= 0:", "            if not level_minus_ip < 0:", 'silent')
add('C18', 'last-transition-le', EVP, "            if letter_level[0] == level:", "            if letter_level[0] <= level:", 'fire', 'C18.R1b')
add('C18', 'probability-without-N', OFO, "        pcfg_omen_prob[level] = percentage_cracked/keyspace", "        pcfg_omen_prob[level] = num_instances/keyspace", 'fire', 'C18.R2')
add('C18', 'ip-writer-skips-unseen', OFO, '            for key, data in omen_trainer.grammar.items():\n                file.write(str(data[\'ip_level\'])+ "\\t" + key + "\\n")', '            for key, data in omen_trainer.grammar.items():\n                if data[\'ip_count\'] == 0:\n                    continue\n                file.write(str(data[\'ip_level\'])+ "\\t" + key + "\\n")', 'fire', 'C18.R3')

# ---- C13 ------------------------------------------------------------------------------------------------------
SPS = 'lib_scorer/pcfg_password_scorer.py'
add('C13', 'other-before-digit', SPS, [("        found_digit_strings = digit_detection(section_list)\n", ""), ("        found_other_strings = other_detection(section_list)\n", "        found_other_strings = other_detection(section_list)\n        found_digit_strings = digit_detection(section_list)\n")], None, 'fire', 'C13.R1')
add('C13', 'year-and-context-swapped (still a valid segmentation order)', SPS, [("        found_years = year_detection(section_list)\n", ""), ("        found_context_sensitive_strings = context_sensitive_detection(section_list)\n", "        found_context_sensitive_strings = context_sensitive_detection(section_list)\n        found_years = year_detection(section_list)\n")], None, 'silent')
add('C13', 'early-return-dropped', SPS, "        if category in ['e', 'w']:\n            return (password, category, 0, omen_score)\n", "", 'fire', 'C13.R2')
add('C13', 'digits-looked-up-in-other-table', SPS, "                cur_prob *= self.count_digits[len(item)][item]", "                cur_prob *= self.count_other[len(item)][item]", 'fire', 'C13.R3')
add('C13', 'mask-factor-dropped', SPS, "            for item in found_mask_list:\n                cur_prob *= self.count_alpha_masks[len(item)][item]\n", "", 'fire', 'C13.R3')
add('C13', 'keyboard-lookup-lowercased', SPS, "cur_prob *= self.count_keyboard[len(item)][item]", "cur_prob *= self.count_keyboard[len(item)][item.lower()]", 'fire', 'C13.R3')
add('C13', 'keyerror-gives-tiny-probability', SPS, "        except KeyError:\n            cur_prob = 0", "        except KeyError:\n            cur_prob = 1e-30", 'fire', 'C13.R3')
add('C13', 'parse-trains-detector', SPS, "        omen_score = self.omen.parse(password)\n", "        omen_score = self.omen.parse(password)\n        self.multiword_detector.train(password)\n", 'fire', 'C13.R4')
add('C13', 'parse-remembers-last-never-read * (ghost state since round 10)', SPS, "        omen_score = self.omen.parse(password)\n", "        omen_score = self.omen.parse(password)\n        self.last_password = password\n", 'silent')
add('C13', 'parse-scores-the-remembered-password', SPS, "        omen_score = self.omen.parse(password)\n", "        omen_score = self.omen.parse(getattr(self, 'last_password', password))\n        self.last_password = password\n", 'fire')
add('C13', 'tables-swapped-at-load', SGIOF, [("_load_from_multiple_files(grammar.count_digits, config['BASE_D']", "_load_from_multiple_files(grammar.count_other, config['BASE_D']"), ("_load_from_multiple_files(grammar.count_other, config['BASE_O']", "_load_from_multiple_files(grammar.count_digits, config['BASE_O']")], None, 'fire', 'C13.R5')
add('C08', 'no-save-on-exhaustion (pinned defect)', CSF, "                self._save_session()\n                return\n", "                return\n", 'fire', 'C08.R4')

# ---- rules added after round 2 ---------------------------------------------------------------------------------
add('C01', 'omen-levels-resorted-after-load', GIO, "    grammar['M'] = []\n    if not _load_from_file(grammar['M'], full_path, encoding):\n        return False\n", "    grammar['M'] = []\n    if not _load_from_file(grammar['M'], full_path, encoding):\n        return False\n    grammar['M'].sort(key=lambda g: int(g['values'][0]))\n", 'fire', 'C01.R6')
add('C02', 'insert-queue-probability-floor', PQF, "        heapq.heappush(self.p_queue, QueueItem(queue_item))\n\n    def restore_base_item", "        if queue_item['prob'] <= self.min_probability:\n            return\n        heapq.heappush(self.p_queue, QueueItem(queue_item))\n\n    def restore_base_item", 'fire', 'C02.R5')
add('C08', 'insert-queue-probability-floor', PQF, "        heapq.heappush(self.p_queue, QueueItem(queue_item))\n\n    def restore_base_item", "        if queue_item['prob'] <= self.min_probability:\n            return\n        heapq.heappush(self.p_queue, QueueItem(queue_item))\n\n    def restore_base_item", 'fire', 'C08.R9')
add('C08', 'restore-recursion-limit-lowered', PGF, "        recursion_depth = 10**6", "        recursion_depth = 10**4", 'fire', 'C08.R9')
add('C03', 'context-match-case-insensitive', CTX_, "        start_index = working_string.find(replacement)", "        start_index = working_string.lower().find(replacement.lower())", 'fire', 'C03.R9')
add('C06', 'tld-table-as-set', 'lib_trainer/detection_rules/tld_list.py', [("    tld_list = [", "    tld_list = {"), ("    ]\n", "    }\n")], None, 'fire', 'C06.R6')
add('C06', 'tld-table-sorted-set (deterministic)', 'lib_trainer/detection_rules/tld_list.py', [("    return tld_list", "    return sorted(set(tld_list), key=tld_list.index)")], None, 'silent')
add('C10', 'find-cp-lower-bound-clamped', GSF, "        if self.max_level < top_level:\n            top_level = self.max_level", "        if self.max_level < top_level:\n            top_level = self.max_level\n        if self.max_level < bottom_level:\n            bottom_level = self.max_level", 'fire', 'C10.R4')
add('C10', 'length-cursor-extra-pruning', MCF_, "            size = len(ln[level])\n            if size > index:\n", "            size = len(ln[level])\n            if size > index and self.target_level - level <= ln[level][index] * self.max_level:\n", 'fire', 'C10.R5')
add('C12', 'catch-all-sets-quit', CSF, "        # If we can't print to stderr, that implies something weird is happening\n        # so exit the user input thread.\n        except:\n            return", "        # If we can't print to stderr, that implies something weird is happening\n        # so exit the user input thread.\n        except:\n            pcfg.should_exit = True\n            return", 'fire', 'C12.R2')
add('C13', 'digit-list-deduplicated', DIG, "            if digit_string is not None:\n                digit_list.append(digit_string)", "            if digit_string is not None:\n                if digit_string not in digit_list:\n                    digit_list.append(digit_string)", 'fire', 'C13.R8')
add('C13', 'alpha-casefold', ALPHA, "    working_string = section[0].lower()", "    working_string = section[0].casefold()", 'fire', 'C13.R9')
add('C03', 'alpha-casefold (outside the one-to-one domain)', ALPHA, "    working_string = section[0].lower()", "    working_string = section[0].casefold()", 'silent')
add('C14', 'loader-cache-by-directory', GIO, [("def load_grammar(rule_name,", "_CACHE = {}\n\n\ndef load_grammar(rule_name,"), ("    grammar = {}\n\n    if not _load_terminals(ruleset_info, grammar, base_directory, config, skip_case):\n        raise Exception", "    grammar = _CACHE.setdefault(base_directory, {})\n\n    if not grammar and not _load_terminals(ruleset_info, grammar, base_directory, config, skip_case):\n        raise Exception")], None, 'fire', 'C14.R8')
add('C14', 'base-probs-renormalised-after-load', PGF, "        self.encoding = self.ruleset_info['encoding']\n", "        self.encoding = self.ruleset_info['encoding']\n        total = sum(b['prob'] for b in self.base)\n        for b in self.base:\n            b['prob'] = b['prob'] / total\n", 'fire', 'C14.R7')
add('C15', 'omen-levels-loop-without-quit-test', PGF, "            return self.omen_generate_guesses(markov_cracker, limit)\n\n        # If it is a capitalization mask", "            for _ in range(1):\n                num_guesses += self.omen_generate_guesses(markov_cracker, limit)\n            return num_guesses\n\n        # If it is a capitalization mask", 'fire', 'C15.R6')
add('C15', 'guess-structure-extra-state-never-read * (ghost state since round 10)', GSF, "    def _format_guess(self):", "    def _touch(self):\n        self.last_len = len(self.parse_tree)\n\n    def _format_guess(self):", 'silent')
add('C17', 'create-guesses-fast-path', PGF, "        if not is_honeyword:\n            return self._recursive_guesses('', pt, limit)", "        if not is_honeyword:\n            if len(pt) == 1 and pt[0][0][0] not in ('M', 'C'):\n                for g in self.grammar[pt[0][0]][pt[0][1]]['values']:\n                    self.print_guess(g)\n                return len(self.grammar[pt[0][0]][pt[0][1]]['values'])\n            return self._recursive_guesses('', pt, limit)", 'fire', 'C17.R6')
add('C18', 'third-pass-without-prefixcount', RTF, "    # Perform third loop through training data\n    # Re-Initialize the file input to read passwords from\n    file_input = TrainerFileInput(\n                    program_info['training_file'], \n                    program_info['encoding'],\n                    program_info['prefixcount'])",
    "    # Perform third loop through training data\n    # Re-Initialize the file input to read passwords from\n    file_input = TrainerFileInput(\n                    program_info['training_file'], \n                    program_info['encoding'])", 'fire', 'C18.R6')
add('C19', 'reader-encoding-remapped', TFI, "        self.encoding = encoding\n        self.filename = filename", "        if encoding.lower() == 'utf-8':\n            encoding = 'utf-8-sig'\n        self.encoding = encoding\n        self.filename = filename", 'fire', 'C19.R5')
add('C20', 'terminal-set-validated', ERF, "        program_info['terminal_set'] = [x.upper() for x in args.terminal_set.split(',')]", "        program_info['terminal_set'] = [x.upper() for x in args.terminal_set.split(',') if x.upper() in 'ADOKXY']", 'fire', 'C20.R6')

# ---- rules added after round 3 ---------------------------------------------------------------------------------
add('C01', 'restore-appends-through-lambda', PQF, "            self.insert_queue\n            )", "            lambda pt_item: self.p_queue.append(QueueItem(pt_item))\n            )", 'fire', 'C01.R2')
add('C06', 'identify-multi-memoised (result extended in place)', MWD, "    def _identify_multi(self, alpha_string):", "    @functools.lru_cache(maxsize=None)\n    def _identify_multi(self, alpha_string):", 'fire', 'C06.R8')
add('C05', 'identify-multi-memoised (result extended in place)', MWD, "    def _identify_multi(self, alpha_string):", "    @functools.lru_cache(maxsize=None)\n    def _identify_multi(self, alpha_string):", 'fire', 'C05.R13')
add('C06', 'get-count-memoised (immutable result)', MWD, "    def _get_count(self, alpha_string):", "    @functools.lru_cache(maxsize=None)\n    def _get_count(self, alpha_string):", 'silent')
add('C06', 'no-omen-error-falls-through', RTF, [('            print("Exiting without saving grammar")\n            return False\n', '            print("Saving without Markov")\n'), ("        if program_info['coverage'] == 0:\n            pcfg_parser.count_base_structures.clear()", "        elif program_info['coverage'] == 0:\n            pcfg_parser.count_base_structures.clear()")], None, 'fire', 'C06.R4')
add('C08', 'ruleset-uuid-name-based', CFG_, 'config.set(section, "uuid", str(uuid.uuid4()))', 'config.set(section, "uuid", str(uuid.uuid5(uuid.NAMESPACE_URL, program_info[\'training_file\'])))', 'fire', 'C08.R12')
add('C06', 'ruleset-uuid-name-based (still deterministic)', CFG_, 'config.set(section, "uuid", str(uuid.uuid4()))', 'config.set(section, "uuid", str(uuid.uuid5(uuid.NAMESPACE_URL, program_info[\'training_file\'])))', 'silent')
add('C08', 'ruleset-uuid1 (still fresh)', CFG_, 'config.set(section, "uuid", str(uuid.uuid4()))', 'config.set(section, "uuid", str(uuid.uuid1()))', 'silent')
add('C11', 'scorer-loader-prunes-by-level', OSCF, "                    # Save the level\n                    self.ip[line[1]] = level", "                    if level <= self.max_omen_level:\n                        self.ip[line[1]] = level", 'fire', 'C11.R10')
add('C11', 'min-length-min-instead-of-max', 'lib_trainer/omen/alphabet_lookup.py', "        self.min_length = min_length\n\n        # Min length can't be less than ngram\n        if self.min_length < ngram:\n            self.min_length = ngram", "        self.min_length = min(min_length, ngram)", 'fire', 'C11.R1')
add('C18', 'min-length-min-instead-of-max', 'lib_trainer/omen/alphabet_lookup.py', "        self.min_length = min_length\n\n        # Min length can't be less than ngram\n        if self.min_length < ngram:\n            self.min_length = ngram", "        self.min_length = min(min_length, ngram)", 'fire', 'C18.R7')
add('*', 'min-length-as-max-call', 'lib_trainer/omen/alphabet_lookup.py', "        self.min_length = min_length\n\n        # Min length can't be less than ngram\n        if self.min_length < ngram:\n            self.min_length = ngram", "        self.min_length = max(min_length, ngram)", 'silent')
MASKLOOP = "        i=0\n        while i < len(replacement):"
add('C13', 'mask-insertion-fixed-range', GIO, [(MASKLOOP, "        for i in range(len(replacement)):"), ("                replacement.insert(i+1,'C' + len_str)\n\n            i += 1\n", "                replacement.insert(i+1,'C' + len_str)\n")], None, 'fire', 'C13.R10')
add('C15', 'omen-ip-lists-via-set', OIOF, [("            grammar[name][level] = []\n\n    try:", "            grammar[name][level] = set()\n\n    try:"), ("                    grammar[name][level].append(line[1])", "                    grammar[name][level].add(line[1])"), ("    except Exception as msg:\n        print(f\"Exception: {msg}\", file=sys.stderr)\n        raise\n\n\ndef _load_length(", "    except Exception as msg:\n        print(f\"Exception: {msg}\", file=sys.stderr)\n        raise\n    if name == 'ip':\n        for level in grammar[name]:\n            grammar[name][level] = list(grammar[name][level])\n\n\ndef _load_length(")], None, 'fire', 'C15.R8')
add('C15', 'dead-end-ip-deleted-while-generating', MCF_, "            # Check to see if there is a IP option for the current level\n            size = len(ip[level])", "            while index < len(ip[level]) and ip[level][index] not in self.grammar['cp']:\n                del ip[level][index]\n            size = len(ip[level])", 'fire', 'C15.R7')
add('C10', 'dead-end-ip-deleted-while-generating', MCF_, "            # Check to see if there is a IP option for the current level\n            size = len(ip[level])", "            while index < len(ip[level]) and ip[level][index] not in self.grammar['cp']:\n                del ip[level][index]\n            size = len(ip[level])", 'fire', 'C10.R6')
FILL = "        if length == 1:\n            cp_index, cp_level = self._find_cp(ip, target_level, target_level)"
add('C10', 'budget-above-max-level-refused', GSF, FILL, "        if target_level > self.max_level:\n            return None\n" + FILL, 'fire', 'C10.R7')
add('C18', 'budget-above-max-level-refused', GSF, FILL, "        if target_level > self.max_level:\n            return None\n" + FILL, 'fire', 'C18.R8')
add('*', 'negative-budget-refused-early', GSF, FILL, "        if target_level < 0:\n            return None\n" + FILL, 'silent')
add('C10', 'guess-prefix-cached', GSF, [("            self.parse_tree[-1][2] += 1\n            return self._format_guess()", "            self.parse_tree[-1][2] += 1\n            return self.guess_base + self.cp[last_item[0]][last_item[1]][last_item[2]]"), ("        guess = self.ip\n        for item in self.parse_tree:", "        guess = self.ip\n        self.guess_base = guess\n        for item in self.parse_tree:")], None, 'fire', 'C10.R8')
add('C14', 'terminals-cache-on-disk', GIO, "    if not _load_terminals(ruleset_info, grammar, base_directory, config, skip_case):\n        raise Exception", "    if not _load_terminals(ruleset_info, grammar, base_directory, config, skip_case):\n        raise Exception\n    with open(os.path.join(base_directory, 'terminals.cache'), 'wb') as cache:\n        pickle.dump(grammar, cache)", 'fire', 'C14.R11')
add('C16', 'terminals-cache-on-disk', GIO, "    if not _load_terminals(ruleset_info, grammar, base_directory, config, skip_case):\n        raise Exception", "    if not _load_terminals(ruleset_info, grammar, base_directory, config, skip_case):\n        raise Exception\n    with open(os.path.join(base_directory, 'terminals.cache'), 'wb') as cache:\n        pickle.dump(grammar, cache)", 'fire', 'C16.R7')
PRINTG = "        if not self.debug:\n            try:\n                print(guess)"
add('C16', 'overlong-guess-not-written', PGF, PRINTG, "        if len(guess) > 256:\n            return\n\n" + PRINTG, 'fire', 'C16.R8')
add('C04', 'overlong-guess-not-written', PGF, PRINTG, "        if len(guess) > 256:\n            return\n\n" + PRINTG, 'fire', 'C04.R12')
add('C09', 'overlong-guess-not-written', PGF, PRINTG, "        if len(guess) > 256:\n            return\n\n" + PRINTG, 'fire', 'C09.R5')
add('C14', 'seeding-skips-out-of-range-probability', PGF, "        for item in self.base:\n            pt_item = {", "        for item in self.base:\n            if not 0.0 < item['prob'] <= 1.0:\n                continue\n            pt_item = {", 'fire', 'C14.R10')
add('C05', 'prince-tally-merges-alpha-in-place', 'lib_trainer/prince_metrics.py', "    for item in section_list:\n", "    elements = section_list\n    if len(elements) > 1 and elements[0][1][0] == 'A' and elements[1][1][0] == 'A':\n        elements[0:2] = [(elements[0][0] + elements[1][0], 'A' + str(len(elements[0][0] + elements[1][0])))]\n    for item in section_list:\n", 'fire', 'C05.R14')
add('C05', 'jcuken-number-row-shifted', KB, "        'name': 'jcuken',\n\n        'row1': ['1', '2',", "        'name': 'jcuken',\n\n        'row1': ['ё', '1', '2',", 'fire', 'C05.R15')
add('C05', 'prince-tally-over-a-copy', 'lib_trainer/prince_metrics.py', "    for item in section_list:\n", "    elements = list(section_list)\n    elements.reverse()\n    for item in elements:\n", 'silent')

IPHEAD = "        level = self.cur_ip[0]\n        index = self.cur_ip[1] + 1\n\n        ip = self.grammar['ip']\n\n        # Loop through all the valid levels left\n        while level <= self.max_level:\n"
IPTAIL = "            level += 1\n            index = 0\n            if level > self.max_level:\n                return False\n            elif level > working_target:\n                return False\n"
add('C10', 'ip-cursor-range-one-short', MCF_, [(IPHEAD, "        index = self.cur_ip[1] + 1\n\n        ip = self.grammar['ip']\n\n        for level in range(self.cur_ip[0], min(working_target + 1, self.max_level)):\n"), (IPTAIL, "            index = 0\n\n        return False\n")], None, 'fire', 'C10.R9')
add('C18', 'ip-cursor-range-one-short', MCF_, [(IPHEAD, "        index = self.cur_ip[1] + 1\n\n        ip = self.grammar['ip']\n\n        for level in range(self.cur_ip[0], min(working_target + 1, self.max_level)):\n"), (IPTAIL, "            index = 0\n\n        return False\n")], None, 'fire', 'C18.R9')
add('*', 'ip-cursor-as-inclusive-range', MCF_, [(IPHEAD, "        index = self.cur_ip[1] + 1\n\n        ip = self.grammar['ip']\n\n        for level in range(self.cur_ip[0], min(working_target, self.max_level) + 1):\n"), (IPTAIL, "            index = 0\n\n        return False\n")], None, 'silent')

# ---- behaviour-preserving edits: ALL properties must stay silent ('*') --------------------------------------------
add('*', 'stderr-trace-in-next', PQF, "        queue_item = heapq.heappop(self.p_queue)\n", "        queue_item = heapq.heappop(self.p_queue)\n        if False:\n            print('popped', file=sys.stderr)\n", 'silent')
add('*', 'find-prob-local-renamed', PGF, "        prob = base_prob\n\n        for item in pt:\n            pt_type = item[0]\n            index = item[1]\n            prob *= self.grammar[pt_type][index]['prob']\n\n        return prob", "        p = base_prob\n\n        for item in pt:\n            pt_type = item[0]\n            index = item[1]\n            p *= self.grammar[pt_type][index]['prob']\n\n        return p", 'silent')
add('*', 'queue-empty-test-truthiness', PQF, "        if len(self.p_queue) == 0:\n            return None", "        if not self.p_queue:\n            return None", 'silent')
add('*', 'loader-prev-prob-renamed', GIO, [("            prev_prob = -1.0\n", "            last_prob = -1.0\n"), ("                if prob == prev_prob:\n", "                if prob == last_prob:\n"), ("                    prev_prob = prob\n\n                    item = {", "                    last_prob = prob\n\n                    item = {")], None, 'silent')
add('*', 'keypress-extra-stderr-line', CSF, '                print ("Exit command received",file=sys.stderr)', '                print ("Exit command received",file=sys.stderr)\n                print ("(saving)",file=sys.stderr)', 'silent')
add('*', 'trainer-extra-status-print', RTF, '    print("Performing the first pass on the training passwords")', '    print("Performing the first pass on the training passwords")\n    print("(this can take a while)")', 'silent')
add('*', 'child-copy-by-slice', PGF, "            child = copy.copy(parent_pt)\n            child[pos] = (child[pos][0], child[pos][1]+1)\n\n            # Check to see if the child belongs to this parent", "            child = parent_pt[:]\n            child[pos] = (child[pos][0], child[pos][1]+1)\n\n            # Check to see if the child belongs to this parent", 'silent')
add('*', 'check-valid-reordered', TFI, [('    if "\\t" in input_password:\n        return False\n', ''), ('    if u"\\u0085" in input_password:\n        return False\n', '    if u"\\u0085" in input_password:\n        return False\n\n    if "\\t" in input_password:\n        return False\n')], None, 'silent')
add('*', 'unused-import-and-helper', PGF, "import random\n\n# Local imports", "import random\nimport itertools\n\n# Local imports", 'silent')
add('*', 'scorer-docstring-and-blank-lines', SPS, "        omen_score = self.omen.parse(password)\n", "        # OMEN first\n\n        omen_score = self.omen.parse(password)\n", 'silent')
add('*', 'edit-rules-message-text', ERF, "    print('Checking length of gramamrs...')", "    print('Checking length of grammars...')", 'silent')
add('*', 'omen-loader-error-text', OIOF, 'print("Hmm that shouldn\'t happen. Hit an unexpected error with the function to load the rules", file=sys.stderr)', 'print("Unexpected n-gram table name", file=sys.stderr)', 'silent')
add('*', 'status-report-extra-field', 'lib_guesser/status_report.py', '        print("Probability Coverage: " + str(self.probability_coverage),file=sys.stderr)', '        print("Probability Coverage: " + str(self.probability_coverage),file=sys.stderr)\n        print("Mode: priority queue",file=sys.stderr)', 'silent')
add('*', 'honeyword-banner-text', 'lib_guesser/honeyword_session.py', 'print ("Starting to generate honeyword guesses",file=sys.stderr)', 'print ("Starting to generate honeywords",file=sys.stderr)', 'silent')
add('*', 'digit-detector-local-renamed', DIG, [("    working_string = section[0]\n", "    text = section[0]\n"), ("    for pos, value in enumerate(working_string):", "    for pos, value in enumerate(text):"), ("        if not value.isdigit() or pos == len(working_string) - 1:", "        if not value.isdigit() or pos == len(text) - 1:")], None, 'silent')

# ---- shared-object rules (round 6) -----------------------------------------------------------------------------
EW_OLD = "    grammar['E'] = []\n    if not _load_from_file(grammar['E'], full_path, encoding):"
add('C01', 'E-and-W-one-list', GIO, EW_OLD, "    grammar['E'] = grammar['W'] = []\n    if not _load_from_file(grammar['E'], full_path, encoding):", 'fire', 'C01.R11')
add('C07', 'E-and-W-one-list', GIO, EW_OLD, "    grammar['E'] = grammar['W'] = []\n    if not _load_from_file(grammar['E'], full_path, encoding):", 'fire', 'C07.R12')
add('C03', 'E-and-W-one-list', GIO, EW_OLD, "    grammar['E'] = grammar['W'] = []\n    if not _load_from_file(grammar['E'], full_path, encoding):", 'fire', 'C03.R13')
add('C01', 'two-locals-one-list *', GIO, EW_OLD, "    unused_a = unused_b = []\n    grammar['E'] = []\n    if not _load_from_file(grammar['E'], full_path, encoding):", 'silent')
PQ_INIT = "        # The actual priority queue\n        self.p_queue = []\n"
add('C02', 'class-level-heap', PQF, [("class PcfgQueue:\n", "class PcfgQueue:\n    p_queue = []\n"), (PQ_INIT, "")], None, 'fire', 'C02.R13')
add('C02', 'class-level-default-rebound-in-init *', PQF, "class PcfgQueue:\n", "class PcfgQueue:\n    p_queue = []\n", 'silent')
add('C02', 'class-level-constant-table *', PQF, "class PcfgQueue:\n", "class PcfgQueue:\n    SAVED_KEYS = ['max_probability', 'min_probability']\n", 'silent')
add('C08', 'class-level-heap', PQF, [("class PcfgQueue:\n", "class PcfgQueue:\n    p_queue = []\n"), (PQ_INIT, "")], None, 'fire', 'C08.R17')
PM_ = 'lib_trainer/prince_metrics.py'
PM_OLD = "    for item in section_list:\n        count_prince[item[1]] += 1"
add('C06', 'prince-set-of-labels', PM_, PM_OLD, "    count_prince.update({label for _, label in section_list})", 'fire', 'C06.R11')
add('C17', 'prince-set-of-labels', PM_, PM_OLD, "    count_prince.update({label for _, label in section_list})", 'fire', 'C17.R4')
add('C06', 'prince-generator-of-labels *', PM_, PM_OLD, "    count_prince.update(label for _, label in section_list)", 'silent')
add('C06', 'prince-list-of-labels-via-local *', PM_, PM_OLD, "    labels = [section[1] for section in section_list]\n    count_prince.update(labels)", 'silent')
add('C06', 'prince-filtered', PM_, PM_OLD, "    count_prince.update(label for _, label in section_list if label)", 'fire', 'C06.R11')
GS_IP = "                    new_ip = element[0][0:-1] + self.cp[last_item[0]][depth_level][last_item[2]]"
add('C10', 'window-slice-minus-zero', GSF, GS_IP, "                    new_ip = last_item[0][-(self.ip_length - 1):] + self.cp[last_item[0]][depth_level][last_item[2]]", 'fire', 'C10.R13')
add('C18', 'window-slice-minus-zero', GSF, GS_IP, "                    new_ip = last_item[0][-(self.ip_length - 1):] + self.cp[last_item[0]][depth_level][last_item[2]]", 'fire', 'C18.R11')
add('C10', 'window-slice-positive-form *', GSF, GS_IP, "                    new_ip = last_item[0][1:] + self.cp[last_item[0]][depth_level][last_item[2]]", 'silent')
add('C10', 'window-slice-last-ip-length *', GSF, GS_IP, "                    new_ip = (last_item[0] + self.cp[last_item[0]][depth_level][last_item[2]])[-self.ip_length:]", 'silent')
IPW = "            if not self._increase_ip_for_target(working_target = self.target_level - self.cur_len[0]):"
add('C11', 'zero-budget-skipped', MCF_, IPW, "            if self.target_level - self.cur_len[0] <= 0 or not self._increase_ip_for_target(working_target = self.target_level - self.cur_len[0]):", 'fire', 'C11.R12')
add('C10', 'zero-budget-skipped', MCF_, IPW, "            if self.target_level - self.cur_len[0] <= 0 or not self._increase_ip_for_target(working_target = self.target_level - self.cur_len[0]):", 'fire', 'C10.R14')
add('C11', 'negative-budget-skipped *', MCF_, IPW, "            if self.target_level - self.cur_len[0] < 0 or not self._increase_ip_for_target(working_target = self.target_level - self.cur_len[0]):", 'silent')
KEYHINT = "        print (\"Press [ENTER] to display a status output\",file=sys.stderr)\n        print (\"Press 'q' [ENTER] to exit\",file=sys.stderr)\n"
add('C12', 'isatty-in-main-thread', CSF, KEYHINT, "        if sys.stdin.isatty():\n            print (\"Press [ENTER] to display a status output\",file=sys.stderr)\n", 'fire', 'C12.R7')
add('C12', 'isatty-in-main-thread-guarded *', CSF, KEYHINT, "        try:\n            interactive = sys.stdin.isatty()\n        except Exception:\n            interactive = False\n        if interactive:\n            print (\"Press [ENTER] to display a status output\",file=sys.stderr)\n", 'silent')
SEEK0 = "                file.seek(0)\n\n            # Read though all the lines in the file"
add('C14', 'skip-brute-cleared-when-total-is-one', GIO, SEEK0, "                file.seek(0)\n                if total_prob == 1.0:\n                    skip_brute = False\n\n            # Read though all the lines in the file", 'fire', 'C14.R12')
OGG = "        num_guesses = 0\n        guess = markov_cracker.next_guess()\n        while guess is not None:\n            num_guesses += 1\n"
add('C15', 'local-seen-set-in-markov-loop', PGF, OGG, "        num_guesses = 0\n        seen = set()\n        guess = markov_cracker.next_guess()\n        while guess is not None:\n            if guess in seen:\n                guess = markov_cracker.next_guess()\n                continue\n            seen.add(guess)\n            num_guesses += 1\n", 'fire', 'C15.R10')
LG_RET = "        raise Exception\n\n    return grammar, base_structures, ruleset_info"
add('C17', 'base-structures-filtered-after-load', GIO, LG_RET, "        raise Exception\n\n    base_structures = [b for b in base_structures if all(i == 'M' or i[1:].isdigit() for i in b['replacements'])]\n    return grammar, base_structures, ruleset_info", 'fire', 'C17.R13')
ERF = 'edit_rules.py'
add('C20', 'second-filter-reads-unfiltered-text', ERF, "        grammar = edit_terminal_set(grammar, config.get('terminal_set'))", "        edited = edit_terminal_set(grammar, config.get('terminal_set'))", 'fire', 'C20.R9')
MASK_LOOP = "                    mask = ''\n                    for letter in section[0][current_start:current_start+len(word)]:\n                        if letter.isupper():\n                            mask +='U'\n                        else:\n                            mask +='L'\n                    mask_list.append(mask)\n"
MASK_INIT = "                mask_list = []\n"
RUNMASK = "                mask_list = []\n                run_mask = ''.join('U' if letter.isupper() else 'L' for letter in section[0][start_pos:end_pos + 1])\n"
add('C03', 'run-mask-cut-from-zero', ALPHA, [(MASK_INIT, RUNMASK), (MASK_LOOP, "                    mask_list.append(run_mask[:len(word)])\n")], None, 'fire', 'C03.R2')
add('C03', 'run-mask-cut-at-word *', ALPHA, [(MASK_INIT, RUNMASK), (MASK_LOOP, "                    mask_list.append(run_mask[current_start - start_pos:current_start - start_pos + len(word)])\n")], None, 'silent')
FOLD = "        prob = base_prob\n\n        for item in pt:\n            pt_type = item[0]\n            index = item[1]\n            prob *= self.grammar[pt_type][index]['prob']\n\n        return prob"
add('*', 'findprob-as-reduce', PGF, [("import random\n", "import random\nimport operator\nfrom functools import reduce\n"), (FOLD, "        return reduce(operator.mul, (self.grammar[item[0]][item[1]]['prob'] for item in pt), base_prob)")], None, 'silent')
add('C01', 'findprob-as-reduce-from-one', PGF, [("import random\n", "import random\nimport operator\nfrom functools import reduce\n"), (FOLD, "        return reduce(operator.mul, (self.grammar[item[0]][item[1]]['prob'] for item in pt), 1.0)")], None, 'fire', 'C01.R3')
RECASE = "        for value, label in section_list:\n            if label and label[0] == 'A':\n                lowered = value.lower()\n                if len(lowered) != len(value) or any(\n                        (low.upper() if orig.isupper() else low) != orig\n                        for orig, low in zip(value, lowered)):\n                    cur_prob = 0\n"
add('C13', 'revert-fix-3b08f17 (no re-casing guard in the scorer)', SPS, RECASE, "", 'fire', 'C13.R14')
LG_CALL = "            skip_brute,\n            skip_case,\n            base_structure_folder\n            )"
LG_DEF = "def load_grammar(rule_name, base_directory, version, skip_brute, skip_case, base_structure_folder):"
LG_DEF2 = "def load_grammar(rule_name, base_directory, version, skip_brute=False, skip_case=False, base_structure_folder='Grammar'):"
add('C01', 'prince-folder-dropped-on-the-way-to-the-loader', PGF, LG_CALL, "            skip_brute = skip_brute,\n            skip_case = skip_case,\n            )", 'fire', 'C01.R12')
add('C14', 'options-by-keyword *', PGF, LG_CALL, "            skip_brute = skip_brute,\n            skip_case = skip_case,\n            base_structure_folder = base_structure_folder,\n            )", 'silent')
add('C17', 'prince-folder-dropped-on-the-way-to-the-loader', PGF, LG_CALL, "            skip_brute = skip_brute,\n            skip_case = skip_case,\n            )", 'fire', 'C17.R14')
NG_OPEN = "        with codecs.open(full_file_path, 'r', encoding= grammar['alphabet_encoding'], errors= 'strict') as file:\n            for line in file:\n                line = line.rstrip('\\n\\r').split('\\t')"
add('C10', 'ngram-reader-keeps-CR', OIOF, NG_OPEN, "        with open(full_file_path, 'r', encoding= grammar['alphabet_encoding'], errors= 'strict', newline='\\n') as file:\n            for line in file:\n                line = line.rstrip('\\n').split('\\t')", 'fire', 'C10.R15')
add('C07', 'ngram-reader-keeps-CR', OIOF, NG_OPEN, "        with open(full_file_path, 'r', encoding= grammar['alphabet_encoding'], errors= 'strict', newline='\\n') as file:\n            for line in file:\n                line = line.rstrip('\\n').split('\\t')", 'fire', 'C07.R5')
add('C07', 'ngram-reader-universal-newlines *', OIOF, NG_OPEN, "        with open(full_file_path, 'r', encoding= grammar['alphabet_encoding'], errors= 'strict') as file:\n            for line in file:\n                line = line.rstrip('\\n').split('\\t')", 'silent')
add('C18', 'ngram-reader-strips-blanks', OIOF, NG_OPEN, NG_OPEN.replace("rstrip('\\n\\r')", "rstrip()"), 'fire', 'C18.R12')
PRINT_G = "        if not self.debug:\n            try:\n                print(guess)"
add('C04', 'print-guess-trims', PGF, PRINT_G, "        if not self.debug:\n            guess = guess.rstrip()\n            try:\n                print(guess)", 'fire', 'C04.R12')
add('C09', 'print-guess-trims', PGF, PRINT_G, "        if not self.debug:\n            guess = guess.rstrip()\n            try:\n                print(guess)", 'fire', 'C09.R5')
CTXS = 'lib_trainer/detection_rules/context_sensitive_detection.py'
HASH1 = "            if start_index < len(working_string) - 3:\n                if working_string[start_index + 3].isdigit():\n                    # False positive\n                    continue"
add('C05', 'lookahead-guarded-by-non-emptiness', CTXS, HASH1, "            remainder = working_string[start_index + len(replacement):]\n            if remainder and remainder[1].isdigit():\n                # False positive\n                continue", 'fire', 'C05.R16')
add('C05', 'lookahead-guarded-by-length *', CTXS, HASH1, "            remainder = working_string[start_index + len(replacement):]\n            if len(remainder) > 1 and remainder[1].isdigit():\n                # False positive\n                continue", 'silent')
add('C11', 'optimizer-cache-as-mutable-default', OPTF, [("    def __init__(self, max_length):", "    def __init__(self, max_length, tmto_lookup = []):"), (OPT_INIT, "        self.tmto_lookup = tmto_lookup\n        for i in range(len(self.tmto_lookup), self.max_length + 1):")], None, 'fire', 'C11.R13')
add('C10', 'optimizer-cache-as-mutable-default', OPTF, [("    def __init__(self, max_length):", "    def __init__(self, max_length, tmto_lookup = []):"), (OPT_INIT, "        self.tmto_lookup = tmto_lookup\n        for i in range(len(self.tmto_lookup), self.max_length + 1):")], None, 'fire', 'C10.R16')
add('C10', 'optimizer-none-default *', OPTF, [("    def __init__(self, max_length):", "    def __init__(self, max_length, tmto_lookup = None):"), (OPT_INIT, "        self.tmto_lookup = [] if tmto_lookup is None else tmto_lookup\n        for i in range(len(self.tmto_lookup), self.max_length + 1):")], None, 'silent')
PGU = 'pcfg_guesser.py'
add('C14', 'saved-skip-brute-improved', PGU, "    save_config.set(section, 'skip_brute', str(program_info['skip_brute']))", "    save_config.set(section, 'skip_brute', str(program_info['skip_brute'] and program_info['rule_name'] != 'Default'))", 'fire', 'C14.R14')
ENC_OLD = "        ruleset_info['encoding'] = config.get('TRAINING_DATASET_DETAILS','encoding')"
add('C17', 'utf-8-becomes-utf-8-sig', GIO, ENC_OLD, "        encoding = config.get('TRAINING_DATASET_DETAILS','encoding')\n        if encoding.lower() in ('utf-8', 'utf8'):\n            encoding = 'utf-8-sig'\n        ruleset_info['encoding'] = encoding", 'fire', 'C17.R15')
add('C07', 'utf-8-becomes-utf-8-sig', GIO, ENC_OLD, "        encoding = config.get('TRAINING_DATASET_DETAILS','encoding')\n        if encoding.lower() in ('utf-8', 'utf8'):\n            encoding = 'utf-8-sig'\n        ruleset_info['encoding'] = encoding", 'fire', 'C07.R13')
add('C07', 'encoding-through-a-local *', GIO, ENC_OLD, "        recorded = config.get('TRAINING_DATASET_DETAILS','encoding')\n        ruleset_info['encoding'] = recorded", 'silent')
add('C20', 'terminal-filter-drops-last-line', ERF, "    print('Checking grammars for terminals...')\n    return_grammar = ''\n    for line in grammar.split('\\n'):\n        if not line:\n            continue\n", "    print('Checking grammars for terminals...')\n    return_grammar = ''\n    for line in grammar.split('\\n')[:-1]:\n", 'fire', 'C20.R4')
PARS_INIT = "        self.count_alpha = {}\n"
add('C06', 'alpha-table-at-class-level', PARS, [("class PCFGPasswordParser:\n", "class PCFGPasswordParser:\n    count_alpha = {}\n"), (PARS_INIT, "")], None, 'fire', 'C06.R12')
GEN1 = "            if skip_brute:\n                for value in file:\n                    # Split up the tab seperated items and then save their values\n                    split_values = value.rstrip().split(\"\\t\")\n"
GEN2 = "            for value in file:\n\n                # Split up the tab seperated items and then save their values\n                split_values = value.rstrip().split(\"\\t\")\n"
add('C14', 'one-generator-for-both-passes', GIO, [(GEN1, "            entries = (line.rstrip().split(\"\\t\") for line in file)\n            if skip_brute:\n                for split_values in entries:\n"), (GEN2, "            for split_values in entries:\n")], None, 'fire', 'C14.R15')
add('C11', 'window-slice-one-minus-n', GSF, GS_IP, "                    new_ip = last_item[0][1 - self.ip_length:] + self.cp[last_item[0]][depth_level][last_item[2]]", 'fire', 'C11.R14')
add('C11', 'popped-level-read-at-loop-head', GSF, "            # Simplifying some of the code by assigning this pointer\n            last_item = self.parse_tree[-1]\n", "            req_level += element[1] - element[1]\n            # Simplifying some of the code by assigning this pointer\n            last_item = self.parse_tree[-1]\n", 'fire', 'C11.R15')
# ---- round 9 rules ---------------------------------------------------------------------------------------------
WLG = 'lib_princeling/wordlist_generation.py'
DONE_MSG = "    print (\"Done generating the PRINCE wordlist.\",file=sys.stderr)"
add('C17', 'prince-done-message-on-stdout', WLG, DONE_MSG, "    print (\"Done generating the PRINCE wordlist.\")", 'fire', 'C17.R17')
add('C17', 'prince-done-message-via-stderr-write *', WLG, DONE_MSG, "    sys.stderr.write(\"Done generating the PRINCE wordlist.\\n\")", 'silent')
HW_COUNT = "                num_guess_current += num_generated_guesses\n"
add('C16', 'honeyword-run-gives-up-after-empty-walks', HSF_, HW_COUNT, HW_COUNT + "                if num_generated_guesses == 0 and self.random_seed > 100000:\n                    break\n", 'fire', 'C16.R14')
MAXP = "        self.max_probability = save_config.getfloat('guessing_info', 'max_probability')"
add('C08', 'restored-position-nudged', PQF, MAXP, MAXP + " * (1 - 1e-15)", 'fire', 'C08.R20')
add('C15', 'restored-position-nudged', PQF, MAXP, MAXP + " * (1 - 1e-15)", 'fire', 'C15.R11')
add('C08', 'restored-position-through-a-local *', PQF, MAXP, "        saved_position = save_config.getfloat('guessing_info', 'max_probability')\n        self.max_probability = saved_position", 'silent')
CPLOAD = "        _load_ngrams(base_directory, \"CP.level\", grammar, \"cp\")\n"
add('C10', 'cp-table-pruned-after-loading', OIOF, CPLOAD, CPLOAD + "        grammar['cp'] = {ngram: levels for ngram, levels in grammar['cp'].items() if ngram[0] != ' '}\n", 'fire', 'C10.R19')
add('C11', 'cp-table-pruned-after-loading', OIOF, CPLOAD, CPLOAD + "        grammar['cp'] = {ngram: levels for ngram, levels in grammar['cp'].items() if ngram[0] != ' '}\n", 'fire', 'C11.R17')
MWIN = "            program_info['multiword'],\n            program_info['encoding']\n        )"
add('C19', 'multiword-list-read-as-count-prefixed', RTF, MWIN, "            program_info['multiword'],\n            program_info['encoding'],\n            program_info['prefixcount']\n        )", 'fire', 'C19.R9')
add('C19', 'multiword-list-explicitly-plain *', RTF, MWIN, "            program_info['multiword'],\n            program_info['encoding'],\n            False\n        )", 'silent')
# ---- round 10 rules ---------------------------------------------------------------------------------------------
PSC = 'password_scorer.py'
ERU = 'edit_rules.py'
CFF = 'lib_trainer/config_file.py'
TFIF = 'lib_trainer/trainer_file_input.py'
add('C14', 'option-stored-under-the-other-key', PGU, "    program_info['skip_case'] = args.skip_case", "    program_info['skip_case'] = args.skip_brute", 'fire', 'C14.R16')
SAVE_SC = "    save_config.set(section, 'skip_case', str(program_info['skip_case']))"
add('C14', 'flag-saved-from-the-other-flag', PGU, SAVE_SC, "    save_config.set(section, 'skip_case', str(program_info['skip_brute']))", 'fire', 'C14.R14')
LOAD_SC = "        program_info['skip_case'] = save_config.getboolean('rule_info','skip_case')"
add('C08', 'flag-restored-from-the-other-key', PGU, LOAD_SC, "        program_info['skip_case'] = save_config.getboolean('rule_info','skip_brute')", 'fire', 'C08.R11')
add('C12', 'flag-restored-from-the-other-key', PGU, LOAD_SC, "        program_info['skip_case'] = save_config.getboolean('rule_info','skip_brute')", 'fire', 'C12.R11')
MAIN_CALL = "if __name__ == \"__main__\":\n    main()"
add('C09', 'os-exit-after-main', PGU, MAIN_CALL, MAIN_CALL + "\n    sys.stderr.flush()\n    os._exit(0)", 'fire', 'C09.R10')
add('C09', 'os-exit-after-flushing-stdout *', PGU, MAIN_CALL, MAIN_CALL + "\n    sys.stdout.flush()\n    sys.stderr.flush()\n    os._exit(0)", 'silent')
ENC_ERR = "    config.set(section, \"number_of_encoding_errors\", str(file_input.num_encoding_errors))"
add('C19', 'counter-through-misspelt-getattr', CFF, ENC_ERR, "    config.set(section, \"number_of_encoding_errors\", str(getattr(file_input, \"num_encoding_error\", 0)))", 'fire', 'C19.R11')
add('C19', 'counter-through-getattr *', CFF, ENC_ERR, "    config.set(section, \"number_of_encoding_errors\", str(getattr(file_input, \"num_encoding_errors\", 0)))", 'silent')
add('C19', 'control-range-one-short', TFIF, "    for invalid_hex in range (0x0,0x20):", "    for invalid_hex in range(0x00, 0x1f):", 'fire', 'C19.R12')
add('C19', 'control-range-decimal *', TFIF, "    for invalid_hex in range (0x0,0x20):", "    for invalid_hex in range(32):", 'silent')
NGRAM_RD = "        grammar['ngram'] = config.getint('training_settings','ngram')"
add('C10', 'omen-ngram-key-with-fallback', OIOF, NGRAM_RD, "        grammar['ngram'] = config.getint('training_settings','ngrams', fallback = 4)", 'fire', 'C10.R20')
add('C18', 'omen-ngram-key-with-fallback', OIOF, NGRAM_RD, "        grammar['ngram'] = config.getint('training_settings','ngrams', fallback = 4)", 'fire', 'C18.R13')
add('C11', 'omen-ngram-read-as-text', OIOF, NGRAM_RD, "        grammar['ngram'] = config.get('training_settings','ngram')", 'fire', 'C11.R19')
OMEN_BLOCK = "    # Initalize the OMEN scorer\n    print(\"Initializing the OMEN scorer\")\n    pw_parser.create_omen_scorer( base_directory, program_info['max_omen_level'])\n\n"
LOAD_BLOCK = "    # Attempt to load the rules file into the pw_parser\n"
add('C07', 'omen-scorer-before-the-grammar', PSC, [(OMEN_BLOCK, ""), (LOAD_BLOCK, OMEN_BLOCK + LOAD_BLOCK)], None, 'fire', 'C07.R18')
add('C20', 'rule-name-reduced-to-basename', ERU, "    if not edit_rules(program_info):", "    program_info['rule'] = os.path.basename(os.path.normpath(program_info['rule']))\n    if not edit_rules(program_info):", 'fire', 'C20.R12')
add('C16', 'walk-stops-one-group-short', PGF, "            max_index = len(self.grammar[pt_type])\n", "            max_index = len(self.grammar[pt_type]) - 1\n", 'fire', 'C16.R1')
POP = "        queue_item = heapq.heappop(self.p_queue)\n        self.max_probability = queue_item.pt_item['prob']\n"
add('*', 'pop-timed-on-stderr', PQF, [("import heapq\n", "import heapq\nimport sys\nimport time\n"), (POP, "        pop_started = time.perf_counter()\n" + POP + "        print('pop took', time.perf_counter() - pop_started, file=sys.stderr)\n")], None, 'silent')
add('*', 'pop-counter-nobody-reads', PQF, [(POP, POP + "        self.num_popped_items += 1\n")], None, 'silent')
add('C08', 'pop-counter-that-ends-the-run', PQF, [(POP, POP + "        self.num_popped_items = 1\n        if self.num_popped_items > 1000000:\n            return None\n")], None, 'fire')
# ---- the defect repaired by 1925658 ------------------------------------------------------------------------------
JOIN_LOOP = "                    while password and password[-1] not in '\\r\\n':\n                        rest_of_line = self.file.readline()\n                        if rest_of_line == \"\":\n                            break\n                        password += rest_of_line\n"
add('C19', 'revert-fix-1925658 (codecs readline as the record boundary)', TFIF, JOIN_LOOP, "", 'fire', 'C19.R15')

# ---- fix 718673a: the save on exhaustion names a position below every pre-terminal --------------------------------
EXH = "                self.pqueue.max_probability = -1.0\n"
add('C08', 'revert-fix-718673a (last pre-terminal saved as still to do)', CSF, EXH, "", 'fire', 'C08.R28')
add('C15', 'revert-fix-718673a (last Markov level generated again after it was finished)', CSF, EXH, "", 'fire', 'C15.R17')
add('C08', 'exhaustion-position-zero', CSF, EXH, "                self.pqueue.max_probability = 0.0\n", 'fire', 'C08.R28')
add('C15', 'exhaustion-position-min-probability', CSF, EXH, "                self.pqueue.max_probability = self.pqueue.min_probability\n", 'fire', 'C15.R17')
add('C08', 'exhaustion-position-minus-inf', CSF, EXH, "                self.pqueue.max_probability = float('-inf')\n", 'silent')

# ---- mutation sweep (third run): the gate in front of the OMEN restore ---------------------------------------------------
LOADGATE = "        if load_session:\n            # If true, we need to restart an OMEN guessing session"
add('C15', 'omen-restore-gate-inverted', CSF, LOADGATE, LOADGATE.replace("if load_session:", "if not load_session:"), 'fire', 'C15.R18')
add('C15', 'omen-restore-marker-inverted', CSF, "            if self.save_config.has_option('guessing_info','omen_guess_number'):", "            if not self.save_config.has_option('guessing_info','omen_guess_number'):", 'fire', 'C15.R18')
add('C15', 'omen-restore-gate-is-true', CSF, LOADGATE, LOADGATE.replace("if load_session:", "if load_session is True:"), 'silent')

# ---- mutation sweep (third run): the scorer's n-gram size ------------------------------------------------------------------
OSCF = 'lib_scorer/omen_scorer.py'
NGRAM_SET = "                    if self.ngram == -1:\n                        self.ngram = len(line[1])"
add('C11', 'scorer-ngram-from-level-field', OSCF, NGRAM_SET, NGRAM_SET.replace("len(line[1])", "len(line[0])"), 'fire', 'C11.R20')
add('C11', 'scorer-ngram-guard-never-true', OSCF, NGRAM_SET, NGRAM_SET.replace("== -1", "== -2"), 'fire', 'C11.R20')
add('C11', 'scorer-ngram-guard-operands-swapped', OSCF, NGRAM_SET, NGRAM_SET.replace("self.ngram == -1", "-1 == self.ngram"), 'silent')

# ---- mutation sweep (third run): the per-level password tally of the third pass ------------------------------------------
RTF3 = 'lib_trainer/run_trainer.py'
LVL_TALLY = "            omen_levels_count[level] += 1"
add('C18', 'level-tally-by-two', RTF3, LVL_TALLY, "            omen_levels_count[level] += 2", 'fire', 'C18.R22')
add('C18', 'level-tally-deleted', RTF3, LVL_TALLY, "            pass", 'fire', 'C18.R22')
add('C11', 'level-tally-under-the-count', RTF3, LVL_TALLY, "            omen_levels_count[num_parsed_so_far] += 1", 'fire', 'C11.R23')
add('C18', 'level-tally-counter-update', RTF3, LVL_TALLY, "            omen_levels_count.update([level])", 'silent')

# ---- mutation sweep (third run): a walk emission site that appends the prefix and not the walk ------------------------------
KB3 = 'lib_trainer/detection_rules/keyboard_walk.py'
K_END = "            # Update the mask for the current run\n            section_list.append((''.join(cur_combo), \"K\"+str(len(cur_combo))))"
add('C05', 'final-walk-piece-not-emitted', KB3, K_END, "            # Update the mask for the current run\n            pass", 'fire', 'C05.R2')

# ---- mutation sweep (third run): the run scans of detect_digits / detect_alpha are siblings ------------------------------------
DIGF = 'lib_trainer/detection_rules/digit_detection.py'
ALPF = 'lib_trainer/detection_rules/alpha_detection.py'
add('C05', 'digit-run-starts-inside-a-run', DIGF, "    is_run = False\n", "    is_run = True\n", 'fire', 'C05.R21')
add('C05', 'digit-run-end-two-too-far', DIGF, "                    end_pos = pos - 1", "                    end_pos = pos + 1", 'fire', 'C05.R21')
add('C05', 'digit-run-end-of-string-test-off', DIGF, "        if not value.isdigit() or pos == len(working_string) - 1:", "        if not value.isdigit() or pos == len(working_string) + 1:", 'fire', 'C05.R21')
add('C05', 'alpha-run-end-test-and', ALPF, "        if not value.isalpha() or pos == len(working_string) - 1:", "        if not value.isalpha() and pos == len(working_string) - 1:", 'fire', 'C05.R21')
add('C05', 'alpha-run-end-branch-inverted', ALPF, "                if value.isalpha():\n                    end_pos = pos", "                if not value.isalpha():\n                    end_pos = pos", 'fire', 'C05.R21')
add('C05', 'digit-run-prefix-guard-respelled', DIGF, "                if start_pos !=0:", "                if start_pos != 0:", 'silent')

# ---- mutation sweep (third run): the year kernel ------------------------------------------------------------------------------
YEARF = 'lib_trainer/detection_rules/year_detection.py'
add('C05', 'year-fourth-char-test-negated', YEARF, "                if working_string[start_index + 3].isdigit():", "                if not working_string[start_index + 3].isdigit():", 'fire', 'C05.R22')
add('C05', 'year-position-left-relative', YEARF, "            start_index += start\n", "", 'fire', 'C05.R22')
add('C05', 'year-prefix-18', YEARF, "year_prefix = ['19','20']", "year_prefix = ['18','20']", 'fire', 'C05.R22')
add('C05', 'year-position-explicit-sum', YEARF, "            start_index += start\n", "            start_index = start_index + start\n", 'silent')

# ---- mutation sweep (third run, full): seed advance deleted; queue position saved under the inverted mode test -------------------
add('C16', 'honeyword-seed-advance-deleted', HSF_, "            self.random_seed += 1\n", "", 'fire', 'C16.R3')
add('C16', 'honeyword-seed-advance-by-two', HSF_, "            self.random_seed += 1\n", "            self.random_seed += 2\n", 'silent')
add('C08', 'queue-position-saved-in-the-other-modes', CSF, '        if self.mode == "priority_queue":', '        if self.mode != "priority_queue":', 'fire', 'C08.R4')

# ---- round 13 -------------------------------------------------------------------------------------------------------------------
OPTF13 = 'lib_guesser/omen/optimizer.py'
MEMO13 = "        self.tmto_lookup = []\n        for i in range(self.max_length + 1):\n            self.tmto_lookup.append({})\n"
add('C10', 'memo-one-dict-for-every-length', OPTF13, MEMO13, "        self.tmto_lookup = [{}] * (self.max_length + 1)\n", 'fire', 'C10.R26')
add('C10', 'memo-tables-by-comprehension', OPTF13, MEMO13, "        self.tmto_lookup = [{} for _ in range(self.max_length + 1)]\n", 'silent')
GSF13 = 'lib_guesser/omen/guess_structure.py'
add('C11', 'transition-counter-hoisted-out-of-the-level-loop', GSF13,
    [("        cur_level = target_level\n", "        cur_level = target_level\n        cur_index = 0\n"),
     ("            top_index = len(cp_index)\n            cur_index = 0\n", "            top_index = len(cp_index)\n")], None, 'fire', 'C11.R24')
add('C11', 'transition-counter-also-initialised-outside', GSF13,
    "        cur_level = target_level\n", "        cur_level = target_level\n        cur_index = 0\n", 'silent')
MCF13 = 'lib_guesser/omen/markov_cracker.py'
add('C04', 'first-level-scan-starts-at-1', MCF13, "        for level in range(0,self.max_level):", "        for level in range(1, self.max_level + 1):", 'fire', 'C04.R25')
add('C04', 'first-level-scan-one-argument-range', MCF13, "        for level in range(0,self.max_level):", "        for level in range(self.max_level):", 'silent')
TFI13 = 'lib_trainer/trainer_file_input.py'
add('C06', 'counted-then-skipped', TFI13,
    [("                # Checks to see if the password is valid\n                if not check_valid(clean_password):\n                    continue\n\n                ## This is a valid password\n                self.num_passwords += n\n", ""),
     ("                ## Check the encoding of the file\n", "                if not check_valid(clean_password):\n                    continue\n                self.num_passwords += n\n\n                ## Check the encoding of the file\n")],
    None, 'fire', 'C06.R23')
KBF13 = 'lib_trainer/detection_rules/keyboard_walk.py'
add('C05', 'row-up-takes-the-column-rule-of-row-down', KBF13,
    "            if (cur_data['pos'] == past_data['pos']) or (cur_data['pos'] == past_data['pos'] + 1):",
    "            if (cur_data['pos'] == past_data['pos']) or (cur_data['pos'] == past_data['pos'] - 1):", 'fire', 'C05.R23')
add('C05', 'row-up-test-respelled', KBF13, "        elif cur_data['row'] == past_data['row'] - 1:", "        elif past_data['row'] - cur_data['row'] == 1:", 'silent')
add('C05', 'optional-position-table-used-unguarded', KBF13,
    [("    pos_list = {}\n\n    for board in keyboards:", "    if char.isspace():\n        return None\n\n    pos_list = {}\n\n    for board in keyboards:"),
     ("        past_pos_list = pos_list.copy()\n", "        past_pos_list = pos_list.copy() if pos_list else {}\n")], None, 'fire', 'C05.R24')
PQF13 = 'lib_guesser/priority_queue.py'
add('C02', 'children-of-the-previous-item-pushed-lazily', PQF13,
    "        for child in self.pcfg.find_children(queue_item.pt_item):", "        for child in self.pcfg.find_children(self.last_item):", 'fire', 'C02.R5')
add('C02', 'popped-item-in-a-local', PQF13,
    "        for child in self.pcfg.find_children(queue_item.pt_item):", "        popped = queue_item.pt_item\n        for child in self.pcfg.find_children(popped):", 'silent')
add('C16', 'all-lower-stored-under-a-key-nobody-reads', 'pcfg_guesser.py',
    [("        dest='skip_case',\n", "        dest='all_lower',\n"), ("    program_info['skip_case'] = args.skip_case", "    program_info['all_lower'] = args.all_lower")],
    None, 'fire', 'C16.R19')
add('C14', 'save-flags-read-under-a-key-the-loader-never-writes', CSF,
    "        self.save_config.set('guessing_info', 'mode', self.mode)",
    "        self.save_config.set('rule_info', 'skip_case', str(self.pcfg.ruleset_info.get('skip_case', False)))\n        self.save_config.set('guessing_info', 'mode', self.mode)", 'fire', 'C14.R24')
add('C08', 'parent-priced-without-the-base-probability', PGF, "            new_parent_prob = self._find_prob(new_parent, pt_item['base_prob'])",
    "            new_parent_prob = self._find_prob(new_parent, 1.0) if False else self._find_prob(new_parent)", 'fire')

# ---- round 14 -------------------------------------------------------------------------------------------------------------------
LEAF14 = "                    num_guesses += 1\n                    self.print_guess(new_guess)\n\n                    # Check the limit\n                    if limit:\n                        limit = limit - 1\n                        if limit == 0:\n                            return num_guesses\n"
add('C04', 'count-behind-the-limit-check', PGF, LEAF14,
    "                    self.print_guess(new_guess)\n\n                    # Check the limit\n                    if limit:\n                        limit = limit - 1\n                        if limit == 0:\n                            return num_guesses\n                    num_guesses += 1\n", 'fire', 'C04.R4')
add('C04', 'count-right-after-the-write', PGF, LEAF14,
    "                    self.print_guess(new_guess)\n                    num_guesses += 1\n\n                    # Check the limit\n                    if limit:\n                        limit = limit - 1\n                        if limit == 0:\n                            return num_guesses\n", 'silent')
add('C06', 'recursive-walks-merged-only-with-a-layout', KBF13, "                        if temp_found:\n", "                        if temp_detected_keyboards:\n", 'fire', 'C06.R24')
add('C06', 'recursive-walks-merged-unconditionally', KBF13, "                        if temp_found:\n                            found_list.extend(temp_found)\n", "                        found_list.extend(temp_found)\n", 'silent')
SGIO14 = 'lib_scorer/grammar_io.py'
add('C07', 'scorer-drops-probability-one', SGIO14, "                grammar_counter[split_values[0]] = float(split_values[1])",
    "                prob = float(split_values[1])\n                if not 0.0 < prob < 1.0:\n                    continue\n                grammar_counter[split_values[0]] = prob", 'fire', 'C07.R28')
add('C07', 'scorer-probability-in-a-local', SGIO14, "                grammar_counter[split_values[0]] = float(split_values[1])",
    "                prob = float(split_values[1])\n                grammar_counter[split_values[0]] = prob", 'silent')
add('C01', 'terminal-probability-clamped-on-load', GIO, "                    prob = float(split_values[1])\n", "                    prob = max(float(split_values[1]), sys.float_info.epsilon)\n", 'fire', 'C01.R21')
ODF14 = 'lib_trainer/detection_rules/other_detection.py'
add('C03', 'blank-other-section-labelled-not-counted', ODF14, "            other_list.append(section_list[index][0])", "            if section_list[index][0].strip():\n                other_list.append(section_list[index][0])", 'fire', 'C03.R22')
add('C05', 'blank-leftover-stays-untyped', ODF14, "        if section_list[index][1] is None:", "        if section_list[index][1] is None and section_list[index][0].strip():", 'fire', 'C05.R5')
add('C03', 'other-section-value-in-a-local', ODF14,
    "            section_list[index] = (section_list[index][0],'O' + str(len(section_list[index][0])) )\n            other_list.append(section_list[index][0])",
    "            other_string = section_list[index][0]\n            section_list[index] = (other_string, 'O' + str(len(other_string)))\n            other_list.append(other_string)", 'silent')
