#!/usr/bin/env python3
"""Soundness test of the normalisation front end (sa/canon.py + core.normalise_local_names) on the filed seeds.

The front end claims that every rewrite is behaviour preserving.  For every seed under /verif/seeded:

  1. a scratch copy of /repo gets the seed's patch,
  2. the analyser's front end is run on the copy and every module it changed is WRITTEN BACK as source (ast.unparse of the
     normalised tree) - the scratch tree now is the program the rules actually see,
  3. the seed's demonstration is run against that tree.

A behaviour-preserving seed must still pass its demonstration (the front end did not break the program), a breaking seed
must still fail it (the front end did not "repair" the defect - which would hide it from every rule).  One step is switched off
for this test (SA_KEEP_INERT=1): S10 removes diagnostics written to stderr, which no rule looks at but some demonstrations do.  Nothing here is a check of a
property and nothing is registered in MANIFEST.json: it is a test of the checker, run by hand after changes to canon.py.

  python3-vt tools/canon_check.py [--only C05] [--jobs 8] [-v]
"""
import argparse
import ast
import json
import os
import shutil
import subprocess
import sys
import tempfile
from concurrent.futures import ProcessPoolExecutor

HERE = os.path.dirname(os.path.abspath(__file__))
ROOT = os.path.dirname(HERE)
sys.path.insert(0, ROOT)
PY = '/venv/bin/python'
SIBLING = {'p': 'g', 'q': 'g', 'r': 'h', 's': 'h', 't': 'h', 'u': 'i', 'v': 'i', 'w': 'i', 'x': 'j', 'y': 'j', 'z': 'j',
           'l': 'k', 'm': 'k', 'n': 'k', 'ba': 'o', 'bb': 'o', 'bc': 'o'}


def job(args):
    name, patch, demo, benign = args
    tmp = tempfile.mkdtemp(prefix='canonchk_')
    try:
        subprocess.run(['rsync', '-a', '--exclude', '.git', '--exclude', '__pycache__', '/repo/', tmp + '/'], check=True)
        r = subprocess.run(['patch', '-p1', '--binary', '-s', '-i', patch], cwd=tmp, capture_output=True, text=True)
        if r.returncode != 0:
            return name, {'error': 'patch does not apply'}
        from sa.core import Repo
        os.environ['SA_KEEP_INERT'] = '1'     # S10 drops messages on stderr (irrelevant to the rules); some demonstrations read them
        repo = Repo(tmp)
        changed = []
        for rel, m in repo.modules.items():
            path = os.path.join(tmp, rel)
            try:
                with open(path, encoding='utf-8', newline='') as f:
                    src = f.read()
                orig = ast.parse(src)
            except Exception:
                continue
            if ast.dump(orig) != ast.dump(m.tree):
                new = ast.unparse(m.tree) + '\n'
                compile(new, rel, 'exec')
                with open(path, 'w', encoding='utf-8') as f:
                    f.write(new)
                changed.append(rel)
        env = dict(os.environ, PYTHONDONTWRITEBYTECODE='1')
        r = subprocess.run([PY, demo, tmp], cwd=tmp, capture_output=True, text=True, timeout=900, env=env)
        want = 0 if benign else 1
        return name, {'changed': changed, 'rc': r.returncode, 'ok': r.returncode == want,
                      'tail': (r.stdout + r.stderr).strip().splitlines()[-3:] if r.returncode != want else []}
    except Exception as e:      # noqa: BLE001
        return name, {'error': '%s: %s' % (type(e).__name__, e)}
    finally:
        shutil.rmtree(tmp, ignore_errors=True)


def main():
    ap = argparse.ArgumentParser()
    ap.add_argument('--only')
    ap.add_argument('--jobs', type=int, default=8)
    ap.add_argument('-v', action='store_true')
    a = ap.parse_args()
    sd = os.path.join(ROOT, 'seeded')
    jobs = []
    for d in sorted(os.listdir(sd)):
        p = os.path.join(sd, d)
        if d == 'benign' or not os.path.isdir(p):
            continue
        if os.path.exists(os.path.join(p, 'patch.diff')) and os.path.exists(os.path.join(p, 'demo.py')):
            jobs.append((d, os.path.join(p, 'patch.diff'), os.path.join(p, 'demo.py'), False))
    bd = os.path.join(sd, 'benign')
    for d in sorted(os.listdir(bd)):
        p = os.path.join(bd, d)
        prop, _, k = d.partition('-')
        demo = os.path.join(sd, '%s-%s' % (prop, SIBLING.get(k, 'g')), 'demo.py')
        if os.path.exists(os.path.join(p, 'patch.diff')) and os.path.exists(demo):
            jobs.append(('benign/' + d, os.path.join(p, 'patch.diff'), demo, True))
    if a.only:
        jobs = [j for j in jobs if a.only in j[0]]
    bad = 0
    rewritten = 0
    with ProcessPoolExecutor(a.jobs) as ex:
        for name, res in ex.map(job, jobs):
            if 'error' in res:
                bad += 1
                print('%-16s ERROR %s' % (name, res['error']))
                continue
            rewritten += bool(res['changed'])
            if not res['ok']:
                bad += 1
                print('%-16s MISMATCH rc=%s after rewriting %s :: %s' % (name, res['rc'], res['changed'], ' | '.join(res['tail'])[:300]))
            elif a.v:
                print('%-16s ok rc=%s rewritten=%d' % (name, res['rc'], len(res['changed'])))
            sys.stdout.flush()
    print('canon_check: %d seeds, %d with at least one module rewritten by the front end, %d mismatches' % (len(jobs), rewritten, bad))
    return 1 if bad else 0


if __name__ == '__main__':
    sys.exit(main())
