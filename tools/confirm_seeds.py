#!/usr/bin/env python3
"""Confirm seeded defects delivered by sub-agents and file them under /verif/seeded/<id>/.

For every <src>/<Cxx>/<k>/ with patch.diff + demo.py:
  * fresh scratch git worktree of /repo HEAD (outside /repo and /verif), removed afterwards
  * patch applies; pinned suite: 75 passed with the patch
  * demo.py exits 1 with the patch and 0 without it
Confirmed seeds are copied to /verif/seeded/<Cxx>-<k>/ (patch.diff, demo.py, meta.json with what was run).
"""
import json
import os
import shutil
import subprocess
import sys
import tempfile
from concurrent.futures import ThreadPoolExecutor

SRC = sys.argv[1] if len(sys.argv) > 1 else '/tmp/seed_out'
DST = '/verif/seeded'
PY = '/venv/bin/python'


def sh(cmd, cwd=None, timeout=900):
    r = subprocess.run(cmd, cwd=cwd, capture_output=True, text=True, timeout=timeout)
    return r.returncode, (r.stdout + r.stderr)


def confirm(item):
    prop, k, d = item
    name = '%s-%s' % (prop, k)
    wt = tempfile.mkdtemp(prefix='seedwt_%s_' % name)
    os.rmdir(wt)
    res = {'name': name, 'ok': False}
    try:
        rc, out = sh(['git', '-C', '/repo', 'worktree', 'add', '-q', '--detach', wt, 'HEAD'])
        if rc:
            res['why'] = 'worktree: ' + out[-200:]
            return res
        patch = os.path.join(d, 'patch.diff')
        demo = os.path.join(d, 'demo.py')
        benign = False
        mp0 = os.path.join(d, 'meta.json')
        if os.path.exists(mp0):
            try:
                benign = json.load(open(mp0)).get('kind') == 'benign'
            except Exception:
                pass
        if benign:
            # a behaviour-preserving edit: confirmed with the demonstration of the sibling breaking change (<prop>/g/demo.py)
            demo = next((os.path.join(os.path.dirname(d), k_, 'demo.py') for k_ in sorted(os.listdir(os.path.dirname(d)))
                         if os.path.exists(os.path.join(os.path.dirname(d), k_, 'demo.py'))), demo)
        rc, out = sh(['git', 'apply', '--check', patch], cwd=wt)
        if rc:
            res['why'] = 'patch does not apply: ' + out[-200:]
            return res
        rc0, out0 = sh([PY, demo, wt], cwd=wt, timeout=600)
        sh(['git', 'checkout', '--', '.'], cwd=wt)
        sh(['git', 'clean', '-fdq'], cwd=wt)
        sh(['git', 'apply', patch], cwd=wt)
        rct, outt = sh([PY, '-m', 'pytest', '-q', '-p', 'no:cacheprovider', '--timeout=900'], cwd=wt)
        passed = '75 passed' in outt
        rc1, out1 = sh([PY, demo, wt], cwd=wt, timeout=600)
        res.update({'clean_demo_rc': rc0, 'patched_demo_rc': rc1, 'tests_75_pass': passed,
                    'patched_demo_tail': out1.strip().split('\n')[-3:], 'clean_demo_tail': out0.strip().split('\n')[-2:]})
        res['ok'] = (rc0 == 0 and rc1 == (0 if benign else 1) and passed)
        res['benign'] = benign
        if res['ok']:
            out_d = os.path.join(DST, 'benign', name) if benign else os.path.join(DST, name)
            os.makedirs(out_d, exist_ok=True)
            shutil.copy2(patch, os.path.join(out_d, 'patch.diff'))
            if not benign:
                shutil.copy2(demo, os.path.join(out_d, 'demo.py'))
            meta = {}
            mp = os.path.join(d, 'meta.json')
            if os.path.exists(mp):
                try:
                    meta = json.load(open(mp))
                except Exception:
                    meta = {'raw': open(mp).read()[:2000]}
            meta['property'] = prop
            meta['confirmed'] = {
                'ran': ['git worktree add <scratch> HEAD (repo at %s)' % sh(['git', '-C', '/repo', 'rev-parse', '--short', 'HEAD'])[1].strip(),
                        'python demo.py <scratch>  (clean)   -> exit %d' % rc0,
                        'git apply patch.diff; python -m pytest -q -p no:cacheprovider --timeout=900 -> %s' % ('75 passed' if passed else 'FAILED'),
                        'python demo.py <scratch>  (patched) -> exit %d' % rc1],
                'patched_demo_output_tail': res['patched_demo_tail'],
            }
            json.dump(meta, open(os.path.join(out_d, 'meta.json'), 'w'), indent=1, ensure_ascii=False)
        return res
    except subprocess.TimeoutExpired:
        res['why'] = 'timeout'
        return res
    finally:
        sh(['git', '-C', '/repo', 'worktree', 'remove', '--force', wt])
        shutil.rmtree(wt, ignore_errors=True)


def main():
    items = []
    for prop in sorted(os.listdir(SRC)):
        pd = os.path.join(SRC, prop)
        if not os.path.isdir(pd):
            continue
        for k in sorted(os.listdir(pd)):
            d = os.path.join(pd, k)
            if os.path.exists(os.path.join(d, 'patch.diff')) and (os.path.exists(os.path.join(d, 'demo.py')) or any(
                    os.path.exists(os.path.join(pd, k_, 'demo.py')) for k_ in os.listdir(pd))):
                if len(sys.argv) > 2 and sys.argv[2] not in prop:
                    continue
                if os.environ.get('SEED_KS') and k not in os.environ['SEED_KS'].split(','):
                    continue
                items.append((prop, k, d))
    with ThreadPoolExecutor(8) as ex:
        for r in ex.map(confirm, items):
            print(json.dumps(r)[:400])


if __name__ == '__main__':
    main()
