#!/usr/bin/env python3
"""Robustness fuzz II: semantics-preserving expression/statement rewrites (no false alarms, DESIGN section 7.6).

Mutation operators (each applied at ONE site per mutant, inside functions the rule sets analyse):
  swap-eq      a == b  ->  b == a        (also !=)
  mirror-cmp   a < b   ->  b > a         (<, <=, >, >=)
  aug-expand   x += e  ->  x = x + e     (name targets; -=, *= likewise)
  not-eq       a != b  ->  not a == b    (in `if`/`while` tests only)
  len-zero     len(x) == 0 -> not x ;  len(x) > 0 -> bool(x)   is NOT applied (truthiness of non-lists differs)
  if-flip      if c: A else: B  ->  if not c: B else: A   (only when an else branch exists and is not an elif chain)
  pass-insert  insert a `pass` statement at the top of a function body
  paren-str    'a' + b  left alone (not a mutation)

Every mutant leaves the program's behaviour unchanged; all 20 properties must stay silent on it.

  python3-vt tools/equiv_fuzz.py [--ops swap-eq,mirror-cmp,...] [--max-per-function 3] [--jobs 16] [-v]

A test of the checker, not a check of a property: not registered in MANIFEST.json.
"""
import argparse
import ast
import copy
import os
import sys
from concurrent.futures import ProcessPoolExecutor

HERE = os.path.dirname(os.path.abspath(__file__))
sys.path.insert(0, os.path.dirname(HERE))

from sa import engine                      # noqa: E402
from sa.core import Repo                   # noqa: E402

MIRROR = {ast.Lt: ast.Gt, ast.Gt: ast.Lt, ast.LtE: ast.GtE, ast.GtE: ast.LtE}
OPS = ('swap-eq', 'mirror-cmp', 'aug-expand', 'not-eq', 'if-flip', 'pass-insert', 'slice0', 'range0', 'extract-temp',
       'stderr-print', 'unused-assign', 'else-unnest', 'else-nest', 'len-truth', 'swap-adjacent', 'assert-insert', 'diag-if', 'ann-local')


def find_fn(tree, lname):
    body = tree.body
    fn = None
    for p in lname.split('.'):
        fn = None
        for node in body:
            if isinstance(node, (ast.FunctionDef, ast.ClassDef)) and node.name == p:
                fn = node
                body = node.body
                break
        if fn is None:
            return None
    return fn if isinstance(fn, ast.FunctionDef) else None


def sites(fn, op):
    """Candidate nodes of `fn` for operator `op`, in a deterministic order (index = position in ast.walk)."""
    out = []
    for i, n in enumerate(ast.walk(fn)):
        if op == 'swap-eq' and isinstance(n, ast.Compare) and len(n.ops) == 1 and isinstance(n.ops[0], (ast.Eq, ast.NotEq)):
            out.append(i)
        elif op == 'mirror-cmp' and isinstance(n, ast.Compare) and len(n.ops) == 1 and type(n.ops[0]) in MIRROR:
            out.append(i)
        elif op == 'aug-expand' and isinstance(n, ast.AugAssign) and isinstance(n.target, ast.Name) \
                and isinstance(n.op, (ast.Add, ast.Sub, ast.Mult)):
            out.append(i)
        elif op == 'not-eq' and isinstance(n, (ast.If, ast.While)) and isinstance(n.test, ast.Compare) and len(n.test.ops) == 1 \
                and isinstance(n.test.ops[0], ast.NotEq):
            out.append(i)
        elif op == 'if-flip' and isinstance(n, ast.If) and n.orelse and not (len(n.orelse) == 1 and isinstance(n.orelse[0], ast.If)):
            out.append(i)
        elif op == 'pass-insert' and n is fn:
            out.append(i)
        elif op == 'slice0' and isinstance(n, ast.Subscript) and isinstance(n.slice, ast.Slice) and n.slice.step is None and (
                (isinstance(n.slice.lower, ast.Constant) and n.slice.lower.value == 0) or n.slice.lower is None):
            out.append(i)
        elif op == 'range0' and isinstance(n, ast.Call) and isinstance(n.func, ast.Name) and n.func.id == 'range' and (
                len(n.args) == 1 or (len(n.args) == 2 and isinstance(n.args[0], ast.Constant) and n.args[0].value == 0)):
            out.append(i)
        elif op == 'ann-local' and isinstance(n, ast.Assign) and len(n.targets) == 1 and isinstance(n.targets[0], ast.Name):
            out.append(i)
        elif op in ('stderr-print', 'unused-assign', 'assert-insert', 'diag-if') and isinstance(n, ast.stmt) and n is not fn and not isinstance(n, (ast.FunctionDef, ast.ClassDef)) \
                and not (isinstance(n, ast.Expr) and isinstance(n.value, ast.Constant)):
            out.append(i)
        elif op == 'else-unnest' and isinstance(n, ast.If) and n.orelse and n.body and isinstance(n.body[-1], (ast.Return, ast.Continue, ast.Break, ast.Raise)):
            out.append(i)
        elif op == 'else-nest' and isinstance(n, ast.If) and not n.orelse and n.body and isinstance(n.body[-1], (ast.Return, ast.Continue, ast.Break, ast.Raise)) \
                and _followers(fn, n):
            out.append(i)
        elif op == 'len-truth' and isinstance(n, (ast.If, ast.While)) and _len_test(n.test) is not None:
            out.append(i)
        elif op == 'swap-adjacent' and isinstance(n, ast.Assign) and _swappable(fn, n):
            out.append(i)
        elif op == 'extract-temp' and isinstance(n, (ast.Assign, ast.AugAssign, ast.Return, ast.Expr, ast.If)):
            # a call / subscript / attribute-chain sub-expression of a simple statement (or of an if test)
            host = n.test if isinstance(n, ast.If) else n.value
            if host is not None and _extractable(host) is not None:
                out.append(i)
    return out


def _block_of(fn, st):
    for p in ast.walk(fn):
        for field in ('body', 'orelse', 'finalbody'):
            lst = getattr(p, field, None)
            if isinstance(lst, list) and any(x is st for x in lst):
                return lst, [j for j, x in enumerate(lst) if x is st][0]
    return None, None


def _followers(fn, st):
    lst, k = _block_of(fn, st)
    return lst is not None and k + 1 < len(lst)


def _len_test(t):
    """len(X) == 0 / len(X) != 0 / len(X) > 0 at the top of a test -> ('empty'|'nonempty', X)"""
    if isinstance(t, ast.Compare) and len(t.ops) == 1 and isinstance(t.left, ast.Call) and isinstance(t.left.func, ast.Name) \
            and t.left.func.id == 'len' and len(t.left.args) == 1 and isinstance(t.comparators[0], ast.Constant) and t.comparators[0].value == 0:
        if isinstance(t.ops[0], ast.Eq):
            return 'empty', t.left.args[0]
        if isinstance(t.ops[0], (ast.NotEq, ast.Gt)):
            return 'nonempty', t.left.args[0]
    return None


def _names(node, ctxs):
    return {x.id for x in ast.walk(node) if isinstance(x, ast.Name) and isinstance(x.ctx, ctxs)}


def _swappable(fn, st):
    lst, k = _block_of(fn, st)
    if lst is None or k + 1 >= len(lst):
        return False
    nxt = lst[k + 1]
    if not isinstance(nxt, ast.Assign):
        return False
    for a in (st, nxt):
        if any(isinstance(x, (ast.Call, ast.Subscript, ast.Attribute)) for t in a.targets for x in ast.walk(t)):
            return False
        if any(isinstance(x, ast.Call) for x in ast.walk(a.value)):
            return False
    w1, w2 = _names(st, ast.Store), _names(nxt, ast.Store)
    r1, r2 = _names(st, ast.Load), _names(nxt, ast.Load)
    return not (w1 & (r2 | w2)) and not (w2 & r1)


def _extractable(host):
    """First proper sub-expression of `host` (pre-order) that is a Call or Subscript in Load context without side-effect
    ordering issues (we take the FIRST evaluated one: leftmost-innermost is approximated by the first in ast.walk whose own
    sub-expressions are only names / constants / attributes)."""
    for sub in ast.walk(host):
        if sub is host:
            continue
        if isinstance(sub, (ast.Call, ast.Subscript)) and isinstance(getattr(sub, 'ctx', ast.Load()), ast.Load):
            inner = [x for x in ast.walk(sub) if x is not sub and isinstance(x, (ast.Call, ast.Lambda, ast.IfExp, ast.BoolOp, ast.NamedExpr))]
            if not inner and not _under_shortcircuit(host, sub):
                return sub
    return None


def _under_shortcircuit(host, sub):
    for p in ast.walk(host):
        if isinstance(p, (ast.BoolOp, ast.IfExp, ast.Lambda, ast.ListComp, ast.GeneratorExp, ast.SetComp, ast.DictComp)):
            if any(x is sub for x in ast.walk(p)) and p is not sub:
                # inside a short-circuit / deferred context: extraction would change evaluation
                if isinstance(p, ast.BoolOp) and any(x is sub for x in ast.walk(p.values[0])):
                    continue
                return True
    # must also be the first call evaluated in host: no other call textually before it
    for x in ast.walk(host):
        if isinstance(x, ast.Call) and x is not sub and not any(y is sub for y in ast.walk(x)) and \
                (x.lineno, x.col_offset) < (sub.lineno, sub.col_offset):
            return True
    return False


def apply(fn, op, idx):
    for i, n in enumerate(ast.walk(fn)):
        if i != idx:
            continue
        if op == 'swap-eq':
            n.left, n.comparators = n.comparators[0], [n.left]
        elif op == 'mirror-cmp':
            n.left, n.comparators = n.comparators[0], [n.left]
            n.ops = [MIRROR[type(n.ops[0])]()]
        elif op == 'aug-expand':
            new = ast.Assign(targets=[ast.Name(id=n.target.id, ctx=ast.Store())],
                             value=ast.BinOp(left=ast.Name(id=n.target.id, ctx=ast.Load()), op=n.op, right=n.value))
            # replace in parent
            for p in ast.walk(fn):
                for field in ('body', 'orelse', 'finalbody'):
                    lst = getattr(p, field, None)
                    if isinstance(lst, list) and n in lst:
                        lst[lst.index(n)] = ast.copy_location(new, n)
        elif op == 'not-eq':
            t = n.test
            n.test = ast.UnaryOp(op=ast.Not(), operand=ast.Compare(left=t.left, ops=[ast.Eq()], comparators=t.comparators))
        elif op == 'if-flip':
            n.test = ast.UnaryOp(op=ast.Not(), operand=n.test)
            n.body, n.orelse = n.orelse, n.body
        elif op == 'ann-local':
            new = ast.AnnAssign(target=n.targets[0], annotation=ast.Name(id='object', ctx=ast.Load()), value=n.value, simple=1)
            lst, k = _block_of(fn, n)
            if lst is not None:
                lst[k] = ast.copy_location(new, n)
        elif op in ('stderr-print', 'unused-assign', 'assert-insert', 'diag-if'):
            lst, k = _block_of(fn, n)
            if lst is None:
                return False
            if op == 'stderr-print':
                new = ast.parse("print('debug: reached', file=sys.stderr)").body[0]
            elif op == 'assert-insert':
                new = ast.parse("assert len(str(0)) == 1, 'cannot happen'").body[0]
            elif op == 'diag-if':
                new = ast.parse("if len(str(0)) != 1:\n    print('diagnostic: cannot happen', file=sys.stderr)").body[0]
            else:
                new = ast.parse("unused_dbg_x9 = 0").body[0]
            lst.insert(k, ast.copy_location(new, n))
        elif op == 'else-unnest':
            lst, k = _block_of(fn, n)
            if lst is None:
                return False
            tail = n.orelse
            n.orelse = []
            lst[k + 1:k + 1] = tail
        elif op == 'else-nest':
            lst, k = _block_of(fn, n)
            if lst is None:
                return False
            n.orelse = lst[k + 1:]
            del lst[k + 1:]
        elif op == 'len-truth':
            kind, x = _len_test(n.test)
            n.test = ast.UnaryOp(op=ast.Not(), operand=x) if kind == 'empty' else x
        elif op == 'swap-adjacent':
            lst, k = _block_of(fn, n)
            lst[k], lst[k + 1] = lst[k + 1], lst[k]
        elif op == 'slice0':
            n.slice.lower = None if n.slice.lower is not None else ast.Constant(value=0)
        elif op == 'range0':
            n.args = [n.args[1]] if len(n.args) == 2 else [ast.Constant(value=0), n.args[0]]
        elif op == 'extract-temp':
            host = n.test if isinstance(n, ast.If) else n.value
            sub = _extractable(host)
            tmp = 'tmp_x9'
            new = ast.Assign(targets=[ast.Name(id=tmp, ctx=ast.Store())], value=copy.deepcopy(sub))

            class R(ast.NodeTransformer):
                def visit(self, node):
                    if node is sub:
                        return ast.Name(id=tmp, ctx=ast.Load())
                    return super().visit(node)
            if isinstance(n, ast.If):
                n.test = R().visit(n.test)
            else:
                n.value = R().visit(n.value)
            for p in ast.walk(fn):
                for field in ('body', 'orelse', 'finalbody'):
                    lst = getattr(p, field, None)
                    if isinstance(lst, list) and any(x is n for x in lst):
                        k = [j for j, x in enumerate(lst) if x is n][0]
                        # `elif` chains: an If that is the sole statement of an orelse stays valid python after insertion
                        lst.insert(k, ast.copy_location(new, n))
                        return True
            return False
        elif op == 'pass-insert':
            k = 1 if (n.body and isinstance(n.body[0], ast.Expr) and isinstance(n.body[0].value, ast.Constant)
                      and isinstance(n.body[0].value.value, str)) else 0
            n.body.insert(k, ast.Pass())
        return True
    return False


def analysed_functions():
    from sa.props import REGISTRY
    repo = Repo(engine.REPO)
    funcs = set()
    for pp in sorted(REGISTRY):
        ctx, _ = engine.run_property(pp, REGISTRY[pp]('quick'), 'quick', repo=repo)
        funcs |= {q for q in ctx.stats['functions'] if '::' in q}
    return sorted(q for q in funcs if q.partition('::')[0] in repo.modules and q.partition('::')[2] in repo.modules[q.partition('::')[0]].funcs)


def read(rel):
    with open(os.path.join(engine.REPO, rel), 'rb') as f:
        return f.read().decode('utf-8').replace('\r\n', '\n')


def run_one(m):
    from sa.props import REGISTRY
    q, op, idx = m
    rel, _, lname = q.partition('::')
    tree = ast.parse(read(rel))
    fn = find_fn(tree, lname)
    apply(fn, op, idx)
    ast.fix_missing_locations(tree)
    src = ast.unparse(tree)
    repo = Repo(engine.REPO, {rel: src})
    known = engine.load_known()
    fired = []
    for pp in sorted(REGISTRY):
        ctx, _ = engine.run_property(pp, REGISTRY[pp]('quick'), 'quick', repo=repo)
        v_, kn, u_, okc = engine.summarise(ctx, known)
        fired += ['%s(%s)' % (o['rule'], pp) for o in v_] + ['%s(%s,inconclusive)' % (o['rule'], pp) for o in u_]
    return q, op, idx, sorted(set(fired))


def main():
    ap = argparse.ArgumentParser()
    ap.add_argument('--ops', default=','.join(OPS))
    ap.add_argument('--max-per-function', type=int, default=3)
    ap.add_argument('--jobs', type=int, default=16)
    ap.add_argument('-v', action='store_true')
    a = ap.parse_args()
    ms = []
    for q in analysed_functions():
        rel, _, lname = q.partition('::')
        tree = ast.parse(read(rel))
        fn = find_fn(tree, lname)
        if fn is None:
            continue
        for op in a.ops.split(','):
            for idx in sites(fn, op)[:a.max_per_function]:
                ms.append((q, op, idx))
    bad = 0
    with ProcessPoolExecutor(a.jobs) as ex:
        for q, op, idx, fired in ex.map(run_one, ms, chunksize=2):
            if fired:
                bad += 1
                rel, _, lname = q.partition('::')
                tree = ast.parse(read(rel))
                fn = find_fn(tree, lname)
                node = list(ast.walk(fn))[idx]
                print('FALSE-ALARM %s %s @%s: %s  fires %s' % (op, q, getattr(node, 'lineno', '?'), ast.unparse(node).split('\n')[0][:70], fired))
            elif a.v:
                print('silent %s %s #%d' % (op, q, idx))
    print('equiv_fuzz: %d mutants, %d raised an alarm' % (len(ms), bad))
    return 1 if bad else 0


if __name__ == '__main__':
    sys.exit(main())
