#!/usr/bin/env python3
"""Mutation sweep: how many small operator-level slips in the functions the rules analyse does some rule report?

A development tool, not a check (nothing here is registered in MANIFEST.json).  Stage 1 is static only:

  for every function the rule sets name in their evidence (`functions analysed`), for every mutation site in it
  (comparison operator, +/-1 on a small integer constant, + <-> -, and <-> or, a dropped / added `not` in a test,
  break <-> continue, min <-> max, [0] <-> [1] / [-1], True <-> False, a deleted simple statement)
      scratch copy of the sources, apply the one-token edit, compile, run all 20 rule sets on it (one parse, shared)
      record: V (violation), U (inconclusive), - (silent)

Stage 2 (`--demos N`): for up to N silent mutants per file, run the pinned test suite and the broadest filed demonstrations of the
properties anchored in that file against a scratch copy of the whole repository; a silent mutant that passes the tests and
fails a demonstration is a *missed* property-breaking change (printed as MISSED with the demonstration that fails).  Mutants
that neither a rule nor a demonstration notices are presumed equivalent or out of scope.

  python3-vt tools/mutation_sweep.py [--files lib_guesser/pcfg_grammar.py,...] [--jobs 12] [--limit 0] [--out /tmp/mut.jsonl]
  python3-vt tools/mutation_sweep.py --demos 3 --in /tmp/mut.jsonl
"""
import argparse
import ast
import json
import os
import random
import shutil
import subprocess
import sys
import tempfile
from concurrent.futures import ProcessPoolExecutor

HERE = os.path.dirname(os.path.abspath(__file__))
ROOT = os.path.dirname(HERE)
sys.path.insert(0, ROOT)
PY = '/venv/bin/python'
REPO = '/repo'

CMP = {ast.Lt: '<=', ast.LtE: '<', ast.Gt: '>=', ast.GtE: '>', ast.Eq: '!=', ast.NotEq: '=='}
FLIP = {ast.Lt: '>', ast.LtE: '>=', ast.Gt: '<', ast.GtE: '<='}
CMP_TXT = {ast.Lt: '<', ast.LtE: '<=', ast.Gt: '>', ast.GtE: '>=', ast.Eq: '==', ast.NotEq: '!='}


def analysed_functions():
    """{rel: set(local function names)} from the evidence files of the last run."""
    out = {}
    evd = os.path.join(ROOT, 'evidence')
    for fn in sorted(os.listdir(evd)):
        if not fn.endswith('.json'):
            continue
        ev = json.load(open(os.path.join(evd, fn)))

        def walk(x):
            if isinstance(x, dict):
                for v in x.values():
                    walk(v)
            elif isinstance(x, list):
                for v in x:
                    walk(v)
            elif isinstance(x, str) and '.py::' in x and ' ' not in x:
                rel, _, name = x.partition('::')
                out.setdefault(rel, set()).add(name)
        walk(ev)
    return out


def line_bytes(lines, lineno):
    return lines[lineno - 1]


def sites_in(rel, src, funcs):
    """Yield (lineno, col, end_col, replacement_text, description) - single-line token edits inside the named functions."""
    tree = ast.parse(src)
    blines = src.encode('utf-8').split(b'\n')
    targets = []

    def collect(node, prefix=''):
        for ch in ast.iter_child_nodes(node):
            if isinstance(ch, (ast.FunctionDef, ast.AsyncFunctionDef)):
                q = prefix + ch.name
                if funcs is None or q in funcs:
                    targets.append((q, ch))
                collect(ch, q + '.<locals>.')
            elif isinstance(ch, ast.ClassDef):
                collect(ch, prefix + ch.name + '.')
    collect(tree)
    seen = set()
    for q, fn in targets:
        for n in ast.walk(fn):
            if not hasattr(n, 'lineno'):
                continue
            out = []
            if isinstance(n, ast.Compare) and len(n.ops) == 1 and type(n.ops[0]) in CMP and n.lineno == n.end_lineno:
                # operator text sits between left operand and comparator
                l_end = n.left.end_col_offset
                r_start = n.comparators[0].col_offset
                if n.left.end_lineno == n.comparators[0].lineno == n.lineno:
                    seg = blines[n.lineno - 1][l_end:r_start]
                    old = CMP_TXT[type(n.ops[0])].encode()
                    if seg.count(old) == 1 and seg.strip() == old:
                        i = seg.index(old)
                        out.append((n.lineno, l_end + i, l_end + i + len(old), CMP[type(n.ops[0])], 'cmp %s -> %s' % (old.decode(), CMP[type(n.ops[0])])))
            if isinstance(n, ast.Compare) and len(n.ops) == 1 and type(n.ops[0]) in FLIP and n.lineno == n.end_lineno \
                    and n.left.end_lineno == n.comparators[0].lineno == n.lineno:
                l_end = n.left.end_col_offset
                seg = blines[n.lineno - 1][l_end:n.comparators[0].col_offset]
                old = CMP_TXT[type(n.ops[0])].encode()
                if seg.strip() == old:
                    i = seg.index(old)
                    out.append((n.lineno, l_end + i, l_end + i + len(old), FLIP[type(n.ops[0])], 'cmp %s -> %s' % (old.decode(), FLIP[type(n.ops[0])])))
            if isinstance(n, ast.Call) and len(n.args) >= 2 and not n.keywords and n.lineno == n.end_lineno \
                    and all(isinstance(x, (ast.Name, ast.Attribute, ast.Subscript)) for x in n.args[:2]) \
                    and ast.dump(n.args[0]) != ast.dump(n.args[1]) and n.args[0].end_lineno == n.args[1].end_lineno == n.lineno:
                a0, a1 = n.args[0], n.args[1]
                ln_ = blines[n.lineno - 1]
                new = ln_[a1.col_offset:a1.end_col_offset] + ln_[a0.end_col_offset:a1.col_offset] + ln_[a0.col_offset:a0.end_col_offset]
                out.append((n.lineno, a0.col_offset, a1.end_col_offset, new.decode('utf-8'), 'first two arguments swapped'))
            if isinstance(n, ast.Return) and n.value is not None and n.lineno == n.end_lineno and isinstance(n.value, ast.Constant) \
                    and isinstance(n.value.value, bool):
                pass        # covered by the bool mutation of the constant
            if isinstance(n, ast.Constant) and isinstance(n.value, int) and not isinstance(n.value, bool) and 0 <= n.value <= 9 \
                    and n.lineno == n.end_lineno:
                out.append((n.lineno, n.col_offset, n.end_col_offset, str(n.value + 1), 'const %d -> %d' % (n.value, n.value + 1)))
                if n.value > 0:
                    out.append((n.lineno, n.col_offset, n.end_col_offset, str(n.value - 1), 'const %d -> %d' % (n.value, n.value - 1)))
            if isinstance(n, ast.Constant) and isinstance(n.value, bool) and n.lineno == n.end_lineno:
                out.append((n.lineno, n.col_offset, n.end_col_offset, str(not n.value), 'bool %s -> %s' % (n.value, not n.value)))
            if isinstance(n, ast.BinOp) and isinstance(n.op, (ast.Add, ast.Sub)) and n.left.end_lineno == n.right.lineno == n.lineno:
                seg = blines[n.lineno - 1][n.left.end_col_offset:n.right.col_offset]
                old = b'+' if isinstance(n.op, ast.Add) else b'-'
                if seg.strip() == old:
                    i = seg.index(old)
                    new = '-' if old == b'+' else '+'
                    out.append((n.lineno, n.left.end_col_offset + i, n.left.end_col_offset + i + 1, new, 'arith %s -> %s' % (old.decode(), new)))
            if isinstance(n, ast.BoolOp) and len(n.values) == 2 and n.values[0].end_lineno == n.values[1].lineno == n.lineno:
                seg = blines[n.lineno - 1][n.values[0].end_col_offset:n.values[1].col_offset]
                old = b'and' if isinstance(n.op, ast.And) else b'or'
                if seg.strip() == old:
                    i = seg.index(old)
                    new = 'or' if old == b'and' else 'and'
                    out.append((n.lineno, n.values[0].end_col_offset + i, n.values[0].end_col_offset + i + len(old), new, 'bool-op %s -> %s' % (old.decode(), new)))
            if isinstance(n, (ast.If, ast.While)) and n.test.lineno == n.test.end_lineno:
                t = n.test
                if isinstance(t, ast.UnaryOp) and isinstance(t.op, ast.Not):
                    out.append((t.lineno, t.col_offset, t.operand.col_offset, '', 'test: not dropped'))
                elif isinstance(t, (ast.Name, ast.Attribute, ast.Call, ast.Subscript)):
                    out.append((t.lineno, t.col_offset, t.col_offset, 'not ', 'test: not added'))
            if isinstance(n, ast.Break):
                out.append((n.lineno, n.col_offset, n.end_col_offset, 'continue', 'break -> continue'))
            if isinstance(n, ast.Continue):
                out.append((n.lineno, n.col_offset, n.end_col_offset, 'break', 'continue -> break'))
            if isinstance(n, ast.Call) and isinstance(n.func, ast.Name) and n.func.id in ('min', 'max'):
                new = 'max' if n.func.id == 'min' else 'min'
                out.append((n.func.lineno, n.func.col_offset, n.func.end_col_offset, new, '%s -> %s' % (n.func.id, new)))
            if isinstance(n, ast.Subscript) and isinstance(n.slice, ast.UnaryOp) and isinstance(n.slice.op, ast.USub) \
                    and isinstance(n.slice.operand, ast.Constant) and n.slice.operand.value == 1 and n.slice.lineno == n.slice.end_lineno:
                out.append((n.slice.lineno, n.slice.col_offset, n.slice.end_col_offset, '0', 'index -1 -> 0'))
            if isinstance(n, ast.Expr) and isinstance(n.value, ast.Call) and n.lineno == n.end_lineno and isinstance(n.value.func, ast.Attribute) \
                    and n.value.func.attr in ('append', 'add', 'update', 'extend', 'pop', 'remove', 'sort', 'clear'):
                out.append((n.lineno, n.col_offset, n.end_col_offset, 'pass', 'statement deleted: .%s()' % n.value.func.attr))
            if isinstance(n, ast.AugAssign) and n.lineno == n.end_lineno:
                out.append((n.lineno, n.col_offset, n.end_col_offset, 'pass', 'statement deleted: augmented assignment'))
            for o in out:
                key = o[:4]
                if key not in seen:
                    seen.add(key)
                    yield (q,) + o


def apply_edit(src, lineno, col, end_col, new):
    blines = src.encode('utf-8').split(b'\n')
    ln = blines[lineno - 1]
    blines[lineno - 1] = ln[:col] + new.encode() + ln[end_col:]
    return b'\n'.join(blines).decode('utf-8')


def run_mutant(args):
    rel, q, lineno, col, end_col, new, desc = args
    from sa import engine
    from sa.core import Repo
    from sa.props import REGISTRY
    from sa.seedcheck import copy_sources
    tmp = tempfile.mkdtemp(prefix='sa_mut_')
    rec = {'file': rel, 'function': q, 'line': lineno, 'col': col, 'end_col': end_col, 'new': new, 'op': desc}
    try:
        copy_sources(tmp)
        path = os.path.join(tmp, rel)
        with open(path, encoding='utf-8', newline='') as f:
            src = f.read()
        rec['before'] = src.split('\n')[lineno - 1].strip()[:160]
        mut = apply_edit(src, lineno, col, end_col, new)
        rec['after'] = mut.split('\n')[lineno - 1].strip()[:160]
        try:
            compile(mut, rel, 'exec')
        except SyntaxError:
            rec['verdict'] = 'invalid'
            return rec
        with open(path, 'w', encoding='utf-8', newline='') as f:
            f.write(mut)
        known = engine.load_known()
        repo = Repo(tmp)
        flags = {}
        for p in sorted(REGISTRY):
            ctx, _ = engine.run_property(p, REGISTRY[p]('quick'), 'quick', repo=repo)
            viol, kn, unk, okc = engine.summarise(ctx, known)
            if viol:
                flags[p] = 'V'
            elif unk:
                flags[p] = 'U'
        rec['flags'] = flags
        rec['verdict'] = 'V' if 'V' in flags.values() else ('U' if flags else '-')
        return rec
    except Exception as e:      # noqa: BLE001
        rec['verdict'] = 'error'
        rec['error'] = '%s: %s' % (type(e).__name__, e)
        return rec
    finally:
        shutil.rmtree(tmp, ignore_errors=True)


def props_by_file():
    out = {}
    for line in open(os.path.join(ROOT, 'properties.jsonl')):
        line = line.strip()
        if not line:
            continue
        p = json.loads(line)
        for f in p.get('anchors', {}).get('files', []):
            out.setdefault(f, []).append(p['id'])
    return out


def demo_job(args):
    rec, demos = args
    tmp = tempfile.mkdtemp(prefix='sa_mutdemo_')
    try:
        subprocess.run(['rsync', '-a', '--exclude', '.git', '--exclude', '__pycache__', REPO + '/', tmp + '/'], check=True)
        path = os.path.join(tmp, rec['file'])
        with open(path, encoding='utf-8', newline='') as f:
            src = f.read()
        with open(path, 'w', encoding='utf-8', newline='') as f:
            f.write(apply_edit(src, rec['line'], rec['col'], rec['end_col'], rec['new']))
        env = dict(os.environ, PYTHONDONTWRITEBYTECODE='1')
        r = subprocess.run([PY, '-m', 'pytest', '-q', '-x', '-p', 'no:cacheprovider', '--timeout=900'], cwd=tmp, capture_output=True, text=True, env=env)
        if r.returncode != 0:
            return rec, 'tests-fail', None
        for d in demos:
            try:
                r = subprocess.run([PY, d, tmp], cwd=tmp, capture_output=True, text=True, timeout=600, env=env)
            except subprocess.TimeoutExpired:
                return rec, 'MISSED', d + ' (timeout)'
            if r.returncode != 0:
                tail = (r.stdout + r.stderr).strip().splitlines()[-1:] or ['']
                return rec, 'MISSED', '%s :: %s' % (d, tail[0][:200])
        return rec, 'survives', None
    finally:
        shutil.rmtree(tmp, ignore_errors=True)


def main():
    ap = argparse.ArgumentParser()
    ap.add_argument('--files')
    ap.add_argument('--jobs', type=int, default=12)
    ap.add_argument('--limit', type=int, default=0, help='sample at most this many mutants (0 = all)')
    ap.add_argument('--out', default='/tmp/mutation_sweep.jsonl')
    ap.add_argument('--demos', type=int, default=0, help='stage 2: silent mutants per file to run tests + demonstrations on')
    ap.add_argument('--in', dest='inp')
    ap.add_argument('--letters', default='o,k,j')
    ap.add_argument('--seed', type=int, default=1)
    a = ap.parse_args()
    rnd = random.Random(a.seed)
    if a.demos:
        recs = [json.loads(l) for l in open(a.inp or a.out)]
        silent = [r for r in recs if r.get('verdict') == '-']
        pbf = props_by_file()
        by_file = {}
        for r in silent:
            by_file.setdefault(r['file'], []).append(r)
        jobs = []
        for f, lst in sorted(by_file.items()):
            rnd.shuffle(lst)
            props = pbf.get(f, [])
            demos = []
            for p in props:
                for k in a.letters.split(','):
                    d = os.path.join(ROOT, 'seeded', '%s-%s' % (p, k), 'demo.py')
                    if os.path.exists(d):
                        demos.append(d)
            if not demos:
                continue
            for r in lst[:a.demos]:
                jobs.append((r, demos))
        print('stage 2: %d silent mutants in %d files' % (len(jobs), len(by_file)))
        n = {'MISSED': 0, 'survives': 0, 'tests-fail': 0}
        with ProcessPoolExecutor(a.jobs) as ex:
            for rec, verdict, why in ex.map(demo_job, jobs):
                n[verdict] += 1
                if verdict == 'MISSED':
                    print('MISSED %s:%d %s [%s]  %s  ->  %s\n       %s' % (rec['file'], rec['line'], rec['function'], rec['op'], rec['before'], rec['after'], why))
                    sys.stdout.flush()
        print('stage 2: %s' % n)
        return 0
    funcs = analysed_functions()
    files = a.files.split(',') if a.files else sorted(funcs)
    jobs = []
    for rel in files:
        path = os.path.join(REPO, rel)
        if not os.path.exists(path):
            continue
        with open(path, encoding='utf-8', newline='') as f:
            src = f.read()
        for q, lineno, col, end_col, new, desc in sites_in(rel, src, funcs.get(rel)):
            jobs.append((rel, q, lineno, col, end_col, new, desc))
    if a.limit and len(jobs) > a.limit:
        rnd.shuffle(jobs)
        jobs = sorted(jobs[:a.limit])
    print('%d mutants in %d files' % (len(jobs), len(files)))
    tally = {}
    with open(a.out, 'w') as out, ProcessPoolExecutor(a.jobs) as ex:
        for rec in ex.map(run_mutant, jobs, chunksize=4):
            out.write(json.dumps(rec) + '\n')
            tally[rec['verdict']] = tally.get(rec['verdict'], 0) + 1
    print('verdicts: %s' % tally)
    return 0


if __name__ == '__main__':
    sys.exit(main())
