#!/usr/bin/env python3
"""Build the round-7 prompts from the round-6 ones (adds the round-6 titles to the do-not-repeat lists)."""
import json
import os
import re

for k in range(1, 21):
    P = 'C%02d' % k
    src = open('/tmp/seed_props/PROMPT11_%s.txt' % P).read()
    head, rest = src.split('TASK - deliver FOUR patches', 1)
    # split the head into the two lists
    a, b = head.split('and these BEHAVIOUR-PRESERVING edits; do NOT repeat them either', 1)

    def title(letter):
        try:
            m = json.load(open('/tmp/seed_out11/%s/%s/meta.json' % (P, letter)))
            t = m.get('title', '').strip().replace('\n', ' ')
            return '- ' + t[:220] + '  (files: %s)' % ', '.join(m.get('files_changed', []))
        except Exception:
            return None
    br = None
    a = a.rstrip('\n') + '\n' + ''.join(t + '\n' for t in (title('da'), title('db')) if t) + '\n'
    ben = [title(x) for x in ('dc','dd')]
    b = b.rstrip('\n') + '\n' + ''.join(x[:260] + '\n' for x in ben if x) + '\n'
    head = a + 'and these BEHAVIOUR-PRESERVING edits; do NOT repeat them either' + b
    head = head.replace('This is the ELEVENTH round', 'This is the TWELFTH round').replace('/tmp/seed_out11/', '/tmp/seed_out12/')
    task = '''TASK - deliver FOUR patches, of two different kinds:

(ea), (eb) TWO realistic changes that each BREAK THIS PROPERTY while the project still compiles/imports and the pinned test suite still passes (all 75). Each must be at a site and of an idea not used above - in a FILE or FUNCTION that none of the earlier breaking changes touched if at all possible, and the two in DIFFERENT functions - look like a plausible maintenance edit, be small (1-15 changed lines), carry no comment announcing the bug, and need something specific to manifest (not visible in an ordinary short run).
  (ea) a DATA-HANDLING slip: the wrong dictionary key or the wrong one of two similar attributes, a list shared where a copy was needed (or copied where sharing was relied on), a sort key / reverse flag, a default value of dict.get / defaultdict / getattr, a string method with slightly different semantics (lower vs casefold, strip with / without argument, split with / without maxsplit, isdigit vs isdecimal vs isnumeric, title vs capitalize), a numeric conversion (int vs float vs round), a membership test against the wrong collection, an update that overwrites where it should accumulate.
  (eb) a SMALL FEATURE or BUG-FIX commit that looks like an improvement and is subtly wrong: handling of a corner case (empty, single element, maximum, duplicate, already-present key) that over-corrects, a cache or memo added with an incomplete key, an early exit added for speed that is taken in a case where work remained, a tolerance / rounding / normalisation step, a retry or fallback that substitutes a default, a progress or statistics feature that touches the data it reports on.

(ec), (ed) TWO realistic BEHAVIOUR-PRESERVING commits on the code this property depends on (the functions named in the property record or their close callers/callees) - prefer functions that none of the behaviour-preserving edits listed above touched:
  (ec) a FORMATTING + NAMING commit as an auto-formatter plus a reviewer would produce it: long lines wrapped, call arguments one per line with trailing commas, quotes normalised, comparison / boolean expressions re-parenthesised, `not x == y` / `x != y` spellings unified, imports sorted and grouped, several locals and one or two private helpers renamed (all uses updated), comments and docstrings rewritten. Touch at least three functions, at least 25 changed lines. No logic changes at all.
  (ed) a TYPING / STRUCTURE commit: type annotations on functions and locals, typing aliases, small typing.NamedTuple / enum-like module constants for mode strings or tuple positions WHERE the values stay the same objects the rest of the code compares against (a NamedTuple is still a tuple, a constant still the same string), `from __future__ import annotations`, `if TYPE_CHECKING:` imports, @staticmethod on methods that do not use self (all call sites stay valid), __all__ lists. At least 15 changed lines.
They must NOT change what the tools do with respect to this property for any input (think about empty inputs, ties, Unicode, CRLF, None limits, re-entrancy, exceptions that used to propagate, pickling of objects) - if in doubt choose a safer edit.

For each breaking change k in {ea, eb} deliver a directory /tmp/seed_out12/%(P)s/<k>/ containing:
  1. patch.diff  - produced with `git -C /tmp/seed/%(P)s diff > .../patch.diff` with ONLY this change applied (source files only). Many source files use CRLF line endings: preserve them (check `git diff --stat` shows only the lines you meant to change). The patch must apply cleanly with `git apply` to a clean checkout.
  2. demo.py     - a self-contained demonstration (run as `/venv/bin/python demo.py <path-to-repo-root>`; exit code 0 = property holds, 1 = property violated, prints a short explanation). It takes the repository root as argv[1], creates any inputs it needs in a temporary directory (tempfile) and cleans up, and must not depend on files left in the worktree other than the project source and Rules/Default. It must FAIL (exit 1) with the change applied and PASS (exit 0) on the unchanged tree - RELIABLY: run it three times on the unchanged tree; do not count the exit status of a guesser process as a failure (on some runs the interpreter aborts at shutdown because the status thread is still blocked on stdin - compare what was written to stdout instead, or drive the library / main() in-process). Deterministic, under ~60 s. Make the demo of (ea) exercise the property broadly (several inputs / cut points / option combinations), because it is also used to confirm (ec), (ed). The two demos may share code but each directory must be self-contained.
  3. meta.json   - {"property": "%(P)s", "title": "<one line>", "files_changed": [...], "what_breaks": "<which clause of the property and how>", "needs_to_manifest": "<the specific input / sequence required>", "why_tests_pass": "...", "ran": ["<commands and outcomes>"]}

For each behaviour-preserving edit e in {ec, ed} deliver a directory /tmp/seed_out12/%(P)s/<e>/ containing:
  1. patch.diff  - as above, ONLY this edit applied to a clean checkout (CRLF preserved, applies with `git apply`).
  2. meta.json   - {"property": "%(P)s", "kind": "benign", "title": "<one line: what was changed and how>", "files_changed": [...], "why_equivalent": "<short argument why behaviour w.r.t. the property is unchanged for every input>", "ran": ["<commands and outcomes>"]}
  With the edit applied the pinned suite must give 75 passed AND the demo.py of (ea) AND of (eb) must exit 0; say so in "ran".

Procedure: for each patch start from a clean worktree (`git -C /tmp/seed/%(P)s checkout -- .`; do not use git stash), make the edit, run the pinned suite (75 passed), run the demos (exit 1 for the breaking change's own demo; exit 0 for ec, ed), save patch.diff, revert. Remove anything you generated inside the worktree or under /tmp when done (`git -C /tmp/seed/%(P)s status --short` must be empty at the end; leave nothing but the four directories under /tmp/seed_out12/%(P)s/).

Finish with a brief report: for each of the four patches the file/function edited and the confirmation results.
''' % {'P': P}
    open('/tmp/seed_props/PROMPT12_%s.txt' % P, 'w').write(head + task)
    os.makedirs('/tmp/seed_out12/%s' % P, exist_ok=True)
print('ok')
