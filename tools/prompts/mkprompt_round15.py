#!/usr/bin/env python3
"""Build the round-15 prompts from the metas filed under /verif/seeded (the sub-agent sees only the property record and the
do-not-repeat titles, nothing else of /verif).  Round 13 asks for two breaking changes (fa, fb) and one behaviour-preserving
commit (fc) per property, of kinds the earlier rounds did not ask for."""
import json
import os

SEEDED = '/verif/seeded'
OUT = '/tmp/seed_out15'
os.makedirs('/tmp/seed_props', exist_ok=True)
props = {}
for line in open('/verif/properties.jsonl'):
    d = json.loads(line)
    props[d['id']] = d


def titles(root, P):
    out = []
    for n in sorted(os.listdir(root)):
        if not n.startswith(P + '-'):
            continue
        mp = os.path.join(root, n, 'meta.json')
        if not os.path.exists(mp):
            continue
        try:
            m = json.load(open(mp))
        except Exception:
            continue
        t = (m.get('title') or m.get('what_breaks') or '').strip().replace('\n', ' ')
        f = m.get('files_changed', [])
        if isinstance(f, str):
            f = [f]
        out.append('- ' + t[:200] + '  (files: %s)' % ', '.join(f))
    return out


for P, rec in props.items():
    json.dump(rec, open('/tmp/seed_props/%s.json' % P, 'w'), indent=1)
    br = '\n'.join(titles(SEEDED, P))
    bn = '\n'.join(titles(os.path.join(SEEDED, 'benign'), P))
    text = '''You are helping to evaluate a verification tool for the open-source project lakiw/pcfg_cracker (a PCFG password-guess generator: trainer.py trains a probabilistic grammar ("ruleset") from leaked passwords, pcfg_guesser.py enumerates guesses in probability order; also password_scorer.py, prince_ling.py, edit_rules.py).

Your own private scratch copy of the repository is the git worktree at /tmp/seed/%(P)s . Work ONLY inside that directory and write results ONLY under %(OUT)s/%(P)s/ . Never read or write anything under /repo or /verif (they are off limits to you), and never commit anything anywhere. The sandbox has no network. Python for the project is /venv/bin/python (3.12, project deps installed). The project's pinned test suite is run with:
    cd /tmp/seed/%(P)s && /venv/bin/python -m pytest -q -p no:cacheprovider --timeout=900
(75 tests, all pass on the unchanged tree). A small trained ruleset ships in Rules/Default; you can also train tiny rulesets yourself with trainer.py or by calling lib_trainer.run_trainer.run_trainer directly (write them to a temporary directory, not into the worktree) - note the guesser writes a <session>.sav file next to pcfg_guesser.py and reads stdin in a helper thread, so in scripts prefer importing the library modules (lib_guesser, lib_trainer, lib_scorer, lib_princeling) directly.

The property under study (a semantic property the project should satisfy) is the JSON record in /tmp/seed_props/%(P)s.json - read it first, then read the code it is anchored in AND the code around it (callers, callees, sibling tools that share files or state with it).

YOU HAVE A HARD TIME LIMIT: deliver everything within 10 minutes of wall-clock time. Be economical: read the anchored code, pick the edits quickly, write ONE shared demo harness. A delivered and confirmed patch counts; an unfinished one does not. 

This is the FIFTEENTH round for this property. Earlier rounds already produced these BREAKING changes; do NOT repeat them:
%(br)s

and these BEHAVIOUR-PRESERVING edits; do NOT repeat them either (choose other functions and other kinds of edit):
%(bn)s

TASK - deliver ONE patch:

(ha) ONE realistic change that BREAKS THIS PROPERTY while the project still compiles/imports and the pinned test suite still passes (all 75). It must be at a site and of an idea not used above - in a FILE or FUNCTION that none of the earlier breaking changes touched if at all possible - look like a plausible maintenance edit, be small (1-12 changed lines), carry no comment announcing the bug, and need something specific to manifest (not visible in an ordinary short run). Kind: an AGREEMENT slip between two places that must treat the same data the same way - a writer and a reader of one file format, two loaders of the same file in different tools, a tally and the list it summarises, a first pass and a later pass over the same input, an option's effect in two modes - where ONE of the two is changed in a way that looks like a local clean-up (a strip, a sort, a default, a filter, a type conversion, an encoding argument).

Deliver a directory %(OUT)s/%(P)s/ha/ containing:
  1. patch.diff  - produced with `git -C /tmp/seed/%(P)s diff > .../patch.diff` with ONLY this change applied (source files only). Many source files use CRLF line endings: preserve them (check `git diff --stat` shows only the lines you meant to change). The patch must apply cleanly with `git apply` to a clean checkout.
  2. demo.py     - a self-contained demonstration (run as `/venv/bin/python demo.py <path-to-repo-root>`; exit code 0 = property holds, 1 = property violated, prints a short explanation). It takes the repository root as argv[1], creates any inputs it needs in a temporary directory (tempfile) and cleans up, and must not depend on files left in the worktree other than the project source and Rules/Default. It must FAIL (exit 1) with the change applied and PASS (exit 0) on the unchanged tree - RELIABLY: run it twice on the unchanged tree; do not count the exit status of a guesser process as a failure (compare what was written to stdout instead, or drive the library / main() in-process). Deterministic, under ~60 s.
  3. meta.json   - {"property": "%(P)s", "title": "<one line>", "files_changed": [...], "what_breaks": "<which clause of the property and how>", "needs_to_manifest": "<the specific input / sequence required>", "why_tests_pass": "...", "ran": ["<commands and outcomes>"]}

Procedure: start from a clean worktree (`git -C /tmp/seed/%(P)s checkout -- .`; do not use git stash), make the edit, run the pinned suite (75 passed), run the demo (exit 1), save patch.diff, revert, run the demo again (exit 0). Remove anything you generated inside the worktree or under /tmp when done (`git -C /tmp/seed/%(P)s status --short` must be empty at the end; leave nothing but the one directory under %(OUT)s/%(P)s/).

Finish with a brief report: the file/function edited and the confirmation results.
''' % {'P': P, 'OUT': OUT, 'br': br, 'bn': bn}
    open('/tmp/seed_props/PROMPT15_%s.txt' % P, 'w').write(text)
    os.makedirs('%s/%s' % (OUT, P), exist_ok=True)
print('ok')
