#!/usr/bin/env python3
"""Re-run every filed seed against the CURRENT /repo HEAD (development tool, executes code - not a check, not in MANIFEST.json).

For every /verif/seeded/<id>/ and /verif/seeded/benign/<id>/: a scratch git worktree of /repo HEAD (outside /repo and /verif, removed
afterwards); `git apply --check patch.diff`; for a breaking seed: demo.py on the clean tree must exit 0, with the patch applied 1.
A seed is confirmed on the day it is filed; /repo moves afterwards (fix: commits), so this is run after every change of /repo.
DESIGN section 7.18 reports what it found (a defect of an earlier repair, ten demonstrations that modelled unrepaired behaviour, seven
patches whose context had moved).

usage: python3 tools/recheck_demos.py [jobs] [comma separated seed names]
"""
import os, sys, subprocess, tempfile, shutil, json
from concurrent.futures import ThreadPoolExecutor
PY='/venv/bin/python'; SD='/verif/seeded'
def sh(cmd, cwd=None, timeout=900):
    try:
        r = subprocess.run(cmd, cwd=cwd, capture_output=True, text=True, timeout=timeout)
        return r.returncode, (r.stdout + r.stderr)
    except subprocess.TimeoutExpired:
        return 124, 'timeout'
def one(name):
    d=os.path.join(SD,name); patch=os.path.join(d,'patch.diff'); demo=os.path.join(d,'demo.py')
    wt=tempfile.mkdtemp(prefix='rc_%s_'%name.replace('/','_')); os.rmdir(wt)
    res={'name':name}
    try:
        rc,out=sh(['git','-C','/repo','worktree','add','-q','--detach',wt,'HEAD'])
        if rc: res['err']='worktree '+out[-100:]; return res
        rc,out=sh(['git','apply','--check',patch],cwd=wt)
        res['applies']=(rc==0)
        if name.startswith('benign/'):
            return res
        rc0,out0=sh([PY,demo,wt],cwd=wt,timeout=600)
        res['clean_rc']=rc0; res['clean_tail']=out0.strip().splitlines()[-3:]
        sh(['git','checkout','--','.'],cwd=wt); sh(['git','clean','-fdq'],cwd=wt)
        if res['applies']:
            sh(['git','apply',patch],cwd=wt)
            rc1,out1=sh([PY,demo,wt],cwd=wt,timeout=600)
            res['patched_rc']=rc1
        return res
    finally:
        sh(['git','-C','/repo','worktree','remove','--force',wt]); shutil.rmtree(wt,ignore_errors=True)
names=[d for d in sorted(os.listdir(SD)) if d!='benign' and os.path.isdir(os.path.join(SD,d))]
names+=['benign/'+d for d in sorted(os.listdir(os.path.join(SD,'benign'))) if os.path.isdir(os.path.join(SD,'benign',d))]
if len(sys.argv)>2:
    names=[n for n in names if n in sys.argv[2].split(',')]
with ThreadPoolExecutor(int(sys.argv[1]) if len(sys.argv)>1 else 14) as ex:
    for r in ex.map(one,names):
        bad = r.get('err') or not r.get('applies',True) or (not r['name'].startswith('benign/') and (r.get('clean_rc')!=0 or r.get('patched_rc')!=1))
        print(('BAD ' if bad else 'ok  ')+json.dumps(r),flush=True)
subprocess.run(['git','-C','/repo','worktree','prune'])
print('finished')
