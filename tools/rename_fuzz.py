#!/usr/bin/env python3
"""Robustness fuzz of the analyser against behaviour-preserving edits (no false alarms, DESIGN section 7.6).

For every function the rule sets look at (union of ctx.stats['functions'] over the 20 properties on the clean tree) one
mutant per local variable is produced by renaming that local (AST transform, ast.unparse -> overlay of the module) and all
20 rule sets are run on the mutant: every property must stay silent (exit-0 verdict).  The mutants never touch
parameters, attributes or globals, so the program is unchanged up to alpha-equivalence.

  python3-vt tools/rename_fuzz.py [--max-per-function 2] [--jobs 16] [-v]

This is a test of the checker, not a check of a property: it is not registered in MANIFEST.json.
"""
import argparse
import ast
import os
import sys
from concurrent.futures import ProcessPoolExecutor

HERE = os.path.dirname(os.path.abspath(__file__))
sys.path.insert(0, os.path.dirname(HERE))

from sa import engine                      # noqa: E402
from sa.core import Repo, local_binding_order, walk_local   # noqa: E402


class _Ren(ast.NodeTransformer):
    def __init__(self, old, new):
        self.old, self.new = old, new

    def visit_Name(self, n):
        if n.id == self.old:
            n.id = self.new
        return n

    def visit_FunctionDef(self, n):
        return n            # nested scope: leave alone (it would capture by name; none in the reference tree)

    visit_AsyncFunctionDef = visit_Lambda = visit_ClassDef = visit_FunctionDef


def mutants(max_per_fn):
    from sa.props import REGISTRY
    repo = Repo(engine.REPO)
    funcs = set()
    for pp in sorted(REGISTRY):
        ctx, _ = engine.run_property(pp, REGISTRY[pp]('quick'), 'quick', repo=repo)
        funcs |= {q for q in ctx.stats['functions'] if '::' in q}
    out = []
    for q in sorted(funcs):
        rel, _, lname = q.partition('::')
        if rel not in repo.modules or lname not in repo.modules[rel].funcs or '<locals>' in lname:
            continue
        with open(os.path.join(engine.REPO, rel), 'rb') as f:
            src = f.read().decode('utf-8').replace('\r\n', '\n')
        tree = ast.parse(src)
        # locate the function in the fresh tree
        parts = lname.split('.')
        body = tree.body
        fn = None
        for i, p in enumerate(parts):
            for node in body:
                if isinstance(node, (ast.FunctionDef, ast.ClassDef)) and node.name == p:
                    fn = node
                    body = node.body
                    break
        if not isinstance(fn, ast.FunctionDef):
            continue
        names = local_binding_order(fn)
        used = {n.id for n in ast.walk(fn) if isinstance(n, ast.Name)} | {a.arg for a in fn.args.args}
        has_nested = any(isinstance(n, (ast.Lambda, ast.FunctionDef, ast.ClassDef)) and n is not fn for n in ast.walk(fn))
        uses_locals = any(isinstance(n, ast.Call) and isinstance(n.func, ast.Name) and n.func.id in ('locals', 'vars', 'eval', 'exec')
                          for n in ast.walk(fn))
        globs = {nm for n in ast.walk(fn) if isinstance(n, (ast.Global, ast.Nonlocal)) for nm in n.names}
        if has_nested or uses_locals:
            continue
        k = 0
        for nm in names:
            if nm in globs or nm.startswith('_'):
                continue
            new = nm + '_rn'
            if new in used:
                continue
            out.append((q, nm, new))
            k += 1
            if k >= max_per_fn:
                break
    return out


def run_one(m):
    from sa.props import REGISTRY
    q, old, new = m
    rel, _, lname = q.partition('::')
    with open(os.path.join(engine.REPO, rel), 'rb') as f:
        src = f.read().decode('utf-8').replace('\r\n', '\n')
    tree = ast.parse(src)
    parts = lname.split('.')
    body = tree.body
    fn = None
    for p in parts:
        for node in body:
            if isinstance(node, (ast.FunctionDef, ast.ClassDef)) and node.name == p:
                fn = node
                body = node.body
                break
    r = _Ren(old, new)
    fn.body = [r.visit(st) if not isinstance(st, (ast.FunctionDef, ast.ClassDef)) else st for st in fn.body]
    # NodeTransformer.visit on a statement dispatches to generic_visit for non-scope nodes, so nested Names are renamed
    overlay = {rel: ast.unparse(tree)}
    repo = Repo(engine.REPO, overlay)
    known = engine.load_known()
    fired = []
    for pp in sorted(REGISTRY):
        ctx, _ = engine.run_property(pp, REGISTRY[pp]('quick'), 'quick', repo=repo)
        v_, kn, u_, okc = engine.summarise(ctx, known)
        fired += ['%s:%s' % (pp, o['rule']) for o in v_] + ['%s:%s(inconclusive)' % (pp, o['rule']) for o in u_]
    return q, old, new, sorted(set(fired))


def main():
    ap = argparse.ArgumentParser()
    ap.add_argument('--max-per-function', type=int, default=2)
    ap.add_argument('--jobs', type=int, default=16)
    ap.add_argument('-v', action='store_true')
    a = ap.parse_args()
    ms = mutants(a.max_per_function)
    bad = 0
    with ProcessPoolExecutor(a.jobs) as ex:
        for q, old, new, fired in ex.map(run_one, ms, chunksize=2):
            if fired:
                bad += 1
                print('FALSE-ALARM %s: %s -> %s fires %s' % (q, old, new, fired))
            elif a.v:
                print('silent      %s: %s -> %s' % (q, old, new))
    print('rename_fuzz: %d mutants, %d raised an alarm' % (len(ms), bad))
    return 1 if bad else 0


if __name__ == '__main__':
    sys.exit(main())
